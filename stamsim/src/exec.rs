//! Executor: translates trace operations into calls on a real `AnnotationStore` (real code),
//! using the model's pre-state only to turn references into ids/handles.

use crate::model::*;
use crate::ops::*;
use stam::*;
use std::cell::RefCell;
use std::panic::{catch_unwind, AssertUnwindSafe};

thread_local! {
    static LAST_PANIC: RefCell<Option<String>> = RefCell::new(None);
    static CATCH_DEPTH: RefCell<usize> = RefCell::new(0);
}

/// Installs a panic hook that records the message (and location) instead of printing it.
pub fn install_panic_hook() {
    std::panic::set_hook(Box::new(|info| {
        let msg = if let Some(s) = info.payload().downcast_ref::<&str>() {
            s.to_string()
        } else if let Some(s) = info.payload().downcast_ref::<String>() {
            s.clone()
        } else {
            "panic".to_string()
        };
        let loc = info
            .location()
            .map(|l| format!("{}:{}", l.file(), l.line()))
            .unwrap_or_default();
        if CATCH_DEPTH.with(|d| *d.borrow()) == 0 {
            // a panic outside any guarded call is a harness error: make it visible
            println!("HARNESS-PANIC: {} @ {}", msg, loc);
        }
        LAST_PANIC.with(|p| *p.borrow_mut() = Some(format!("{} @ {}", msg, loc)));
    }));
}

/// Runs f, converting a panic into Err(message)
pub fn catch<T, F: FnOnce() -> T>(f: F) -> Result<T, String> {
    LAST_PANIC.with(|p| *p.borrow_mut() = None);
    CATCH_DEPTH.with(|d| *d.borrow_mut() += 1);
    let r = catch_unwind(AssertUnwindSafe(f));
    CATCH_DEPTH.with(|d| *d.borrow_mut() -= 1);
    match r {
        Ok(v) => Ok(v),
        Err(_) => Err(LAST_PANIC
            .with(|p| p.borrow_mut().take())
            .unwrap_or_else(|| "panic (no message)".to_string())),
    }
}

/// Normalised panic message: digits collapsed, location stripped (used in signatures)
pub fn normalise_panic(msg: &str) -> String {
    let base = msg.split(" @ ").next().unwrap_or(msg);
    let mut out = String::new();
    let mut last_digit = false;
    for c in base.chars().take(80) {
        if c.is_ascii_digit() {
            if !last_digit {
                out.push('N');
            }
            last_digit = true;
        } else {
            out.push(c);
            last_digit = false;
        }
    }
    out
}

#[derive(Clone, Debug, PartialEq)]
pub enum ExecResult {
    Ok(Option<usize>),
    Err(String),
    Panic(String),
}

impl ExecResult {
    pub fn class(&self) -> &'static str {
        match self {
            ExecResult::Ok(_) => "ok",
            ExecResult::Err(_) => "err",
            ExecResult::Panic(_) => "panic",
        }
    }
}

fn bi<'a, T: Storable>(req: &Req) -> BuildItem<'a, T> {
    match req {
        Req::Id(s) => BuildItem::Id(s.clone()),
        Req::Handle(h) => BuildItem::from(*h),
    }
}

pub fn cursor_offset(b: &Cur, e: &Cur) -> Offset {
    Offset::new(b.to_cursor(), e.to_cursor())
}

/// Translate a trace selector into a SelectorBuilder, resolving references against the model pre-state
pub fn selector_builder<'a>(m: &Model, sel: &Sel) -> SelectorBuilder<'a> {
    match sel {
        Sel::Text { r, b, e } => {
            SelectorBuilder::TextSelector(bi(&m.res_target(r).req), cursor_offset(b, e))
        }
        Sel::Resource { r } => SelectorBuilder::ResourceSelector(bi(&m.res_target(r).req)),
        Sel::DataSet { s } => SelectorBuilder::DataSetSelector(bi(&m.set_target(s).req)),
        Sel::Key { s, k } => {
            let ts = m.set_target(s);
            let kreq = match ts.uid {
                Some(set) => m.key_target(set, k).req,
                None => Req::Id(GHOST_ID.to_string()),
            };
            SelectorBuilder::DataKeySelector(bi(&ts.req), bi(&kreq))
        }
        Sel::Data { s, d } => {
            let ts = m.set_target(s);
            let dreq = match ts.uid {
                Some(set) => m.data_target(set, d).req,
                None => Req::Id(GHOST_ID.to_string()),
            };
            SelectorBuilder::AnnotationDataSelector(bi(&ts.req), bi(&dreq))
        }
        Sel::Annotation { a, offset } => SelectorBuilder::AnnotationSelector(
            bi(&m.ann_target(a).req),
            offset.as_ref().map(|(b, e)| cursor_offset(b, e)),
        ),
        Sel::Multi(v) => {
            SelectorBuilder::MultiSelector(v.iter().map(|s| selector_builder(m, s)).collect())
        }
        Sel::Composite(v) => {
            SelectorBuilder::CompositeSelector(v.iter().map(|s| selector_builder(m, s)).collect())
        }
        Sel::Directional(v) => {
            SelectorBuilder::DirectionalSelector(v.iter().map(|s| selector_builder(m, s)).collect())
        }
        // only meaningful at the top level (handled by annotation_builder); nested it is an empty complex selector
        Sel::Missing => SelectorBuilder::MultiSelector(Vec::new()),
    }
}

pub fn data_builder<'a>(m: &Model, spec: &DataSpec) -> AnnotationDataBuilder<'a> {
    match spec {
        DataSpec::New {
            set,
            key,
            value,
            id,
        } => {
            let setitem: BuildItem<AnnotationDataSet> = match set {
                SetRef::Existing(r) => bi(&m.set_target(r).req),
                SetRef::Literal(s) => BuildItem::Id(s.clone()),
                SetRef::Unnamed => BuildItem::None,
            };
            let mut b = AnnotationDataBuilder::new()
                .with_dataset(setitem)
                .with_key(BuildItem::Id(key.clone()))
                .with_value(value.to_datavalue());
            if let Some(id) = id {
                b = b.with_id(BuildItem::Id(id.clone()));
            }
            b
        }
        DataSpec::Existing { set, data } => {
            let ts = m.set_target(set);
            let dreq = match ts.uid {
                Some(s) => m.data_target(s, data).req,
                None => Req::Id(GHOST_ID.to_string()),
            };
            AnnotationDataBuilder::new()
                .with_dataset(bi(&ts.req))
                .with_id(bi(&dreq))
        }
    }
}

pub fn annotation_builder<'a>(
    m: &Model,
    id: &Option<String>,
    target: &Sel,
    data: &[DataSpec],
) -> AnnotationBuilder<'a> {
    let mut b = AnnotationBuilder::new();
    if !matches!(target, Sel::Missing) {
        b = b.with_target(selector_builder(m, target));
    }
    if let Some(id) = id {
        b = b.with_id(id.clone());
    }
    // references in each data item are resolved against the state the model predicts at that
    // point of the request (an earlier item may have created the dataset a later one refers to)
    let mut scratch = m.clone();
    let mut fx = Effects::default();
    for spec in data {
        b = b.with_data_builder(data_builder(&scratch, spec));
        let _ = scratch.apply_dataspec(spec, &mut fx);
    }
    b
}

pub fn protect_mode(mode: ProtectMode) -> TextValidationMode {
    match mode {
        ProtectMode::Auto => TextValidationMode::Auto,
        ProtectMode::Checksum => TextValidationMode::Checksum,
        ProtectMode::Text => TextValidationMode::Text,
        ProtectMode::Both => TextValidationMode::Both,
    }
}

fn res<T>(r: Result<Result<T, StamError>, String>, f: impl FnOnce(T) -> Option<usize>) -> ExecResult {
    match r {
        Ok(Ok(v)) => ExecResult::Ok(f(v)),
        Ok(Err(e)) => ExecResult::Err(format!("{}", e)),
        Err(p) => ExecResult::Panic(p),
    }
}

/// Executes one operation through the direct API. `m` is the model state *before* the operation.
/// Restart and Reindex are handled by the world, not here.
pub fn exec_direct(store: &mut AnnotationStore, m: &Model, op: &Op) -> ExecResult {
    // building the request (handles from numbers, builders) is library code too: a panic there is an
    // outcome of the operation, not a harness error
    match catch(std::panic::AssertUnwindSafe(|| exec_direct_inner(store, m, op))) {
        Ok(r) => r,
        Err(p) => ExecResult::Panic(p),
    }
}

fn exec_direct_inner(store: &mut AnnotationStore, m: &Model, op: &Op) -> ExecResult {
    match op {
        Op::AddResource { id, text, replaced: None } => res(
            catch(|| {
                store.add_resource(
                    TextResourceBuilder::new()
                        .with_id(id.clone())
                        .with_text(text.clone()),
                )
            }),
            |h| Some(h.as_usize()),
        ),
        Op::AddResource { id, text, replaced: Some(first) } => res(
            catch(|| {
                let config = store.config().clone();
                let resource = TextResource::new(id.clone(), config).with_string(first.clone()).with_string(text.clone());
                store.insert(resource)
            }),
            |h| Some(h.as_usize()),
        ),
        Op::AddDataset { id, keys, data } => {
            let mut b = AnnotationDataSetBuilder::new().with_id(id.clone());
            for k in keys {
                b = b.with_key(BuildItem::Id(k.clone()));
            }
            for (did, key, value) in data {
                b = match did {
                    Some(did) => b.with_key_value_id(
                        BuildItem::Id(key.clone()),
                        value.to_datavalue(),
                        BuildItem::Id(did.clone()),
                    ),
                    None => b.with_key_value(BuildItem::Id(key.clone()), value.to_datavalue()),
                };
            }
            res(catch(|| store.add_dataset(b)), |h| Some(h.as_usize()))
        }
        Op::InsertData {
            set,
            id,
            key,
            value,
        } => {
            let spec = DataSpec::New {
                set: set.clone(),
                key: key.clone(),
                value: value.clone(),
                id: id.clone(),
            };
            let b = data_builder(m, &spec);
            res(catch(|| store.insert_data(b)), |(_, d)| Some(d.as_usize()))
        }
        Op::AddKey { s, key } => {
            let ts = m.set_target(s);
            let sreq: BuildItem<AnnotationDataSet> = bi(&ts.req);
            let key = key.clone();
            res(
                catch(|| -> Result<DataKeyHandle, StamError> {
                    let h = store.dataset(sreq).map(|d| d.handle()).ok_or(StamError::OtherError("dataset not found"))?;
                    let set: &mut AnnotationDataSet = <AnnotationStore as StoreFor<AnnotationDataSet>>::get_mut(store, h)?;
                    <AnnotationDataSet as StoreFor<DataKey>>::insert(set, DataKey::new(key))
                }),
                |h| Some(h.as_usize()),
            )
        }
        Op::Annotate { id, target, data } => {
            let b = annotation_builder(m, id, target, data);
            res(catch(|| store.annotate(b)), |h| Some(h.as_usize()))
        }
        Op::AnnotateBatch { items } => {
            // references in each builder are resolved against the state the model predicts at
            // that point of the batch (earlier items of the batch may be referred to)
            let mut scratch = m.clone();
            let mut builders: Vec<AnnotationBuilder> = Vec::new();
            for (id, target, data) in items.iter() {
                builders.push(annotation_builder(&scratch, id, target, data));
                scratch.apply_sequential(&Op::Annotate {
                    id: id.clone(),
                    target: target.clone(),
                    data: data.clone(),
                });
            }
            res(catch(|| store.annotate_from_iter(builders)), |v| {
                v.last().map(|h| h.as_usize())
            })
        }
        // removals are requested the way callers do it: an id as a string, a handle as a handle
        // (a BuildItem hides from the library which of the two it was given)
        Op::RemoveAnnotation { a } => match m.ann_target(a).req {
            Req::Id(id) => res(catch(|| store.remove_annotation(id.as_str())), |_| None),
            Req::Handle(h) => res(catch(|| store.remove_annotation(AnnotationHandle::new(h))), |_| None),
        },
        Op::RemoveResource { r } => match m.res_target(r).req {
            Req::Id(id) => res(catch(|| store.remove_resource(id.as_str())), |_| None),
            Req::Handle(h) => res(catch(|| store.remove_resource(TextResourceHandle::new(h))), |_| None),
        },
        Op::RemoveAnnotationsOn { r } => {
            let req: BuildItem<TextResource> = bi(&m.res_target(r).req);
            res(
                catch(|| -> Result<(), StamError> {
                    let handles: Vec<AnnotationHandle> = match store.resource(req) {
                        Some(res) => res.annotations().map(|a| a.handle()).collect(),
                        None => return Err(StamError::OtherError("resource not found")),
                    };
                    for h in handles {
                        // a cascade of an earlier removal may already have taken it
                        if store.annotation(h).is_some() {
                            store.remove_annotation(h)?;
                        }
                    }
                    Ok(())
                }),
                |_| None,
            )
        }
        Op::RemoveDataset { s } => match m.set_target(s).req {
            Req::Id(id) => res(catch(|| store.remove_dataset(id.as_str())), |_| None),
            Req::Handle(h) => res(catch(|| store.remove_dataset(AnnotationDataSetHandle::new(h))), |_| None),
        },
        Op::RemoveData { s, d, strict } => {
            let ts = m.set_target(s);
            let dreq = match ts.uid {
                Some(set) => m.data_target(set, d).req,
                None => Req::Id(GHOST_ID.to_string()),
            };
            let sreq: BuildItem<AnnotationDataSet> = bi(&ts.req);
            let dreq: BuildItem<AnnotationData> = bi(&dreq);
            res(catch(|| store.remove_data(sreq, dreq, *strict)), |_| None)
        }
        Op::RemoveKey { s, k, strict } => {
            let ts = m.set_target(s);
            let kreq = match ts.uid {
                Some(set) => m.key_target(set, k).req,
                None => Req::Id(GHOST_ID.to_string()),
            };
            let sreq: BuildItem<AnnotationDataSet> = bi(&ts.req);
            let kreq: BuildItem<DataKey> = bi(&kreq);
            res(catch(|| store.remove_key(sreq, kreq, *strict)), |_| None)
        }
        Op::ProtectText { mode } => res(catch(|| store.protect_text(protect_mode(*mode))), |_| None),
        Op::StripAnnotationIds => res(
            catch(|| -> Result<(), StamError> {
                store.strip_annotation_ids();
                Ok(())
            }),
            |_| None,
        ),
        Op::StripDataIds => res(
            catch(|| -> Result<(), StamError> {
                store.strip_data_ids();
                Ok(())
            }),
            |_| None,
        ),
        Op::Reindex | Op::Restart { .. } | Op::Checkpoint { .. } | Op::AnnotateFile { .. } => ExecResult::Ok(None),
    }
}

/// truncate a string to at most n characters (never inside a character)
pub fn trunc(s: &mut String, n: usize) {
    if let Some((i, _)) = s.char_indices().nth(n) {
        s.truncate(i);
    }
}


// ------------------------------------------------------------------ annotations as a STAM JSON file

fn req_id(req: &Req, prefix: &str) -> String {
    match req {
        Req::Id(s) => s.clone(),
        Req::Handle(h) => format!("!{}{}", prefix, h),
    }
}

fn offset_json(b: &Cur, e: &Cur) -> serde_json::Value {
    serde_json::json!({"@type": "Offset", "begin": serde_json::to_value(b.to_cursor()).unwrap(), "end": serde_json::to_value(e.to_cursor()).unwrap()})
}

fn selector_json(m: &Model, sel: &Sel) -> Option<serde_json::Value> {
    use serde_json::json;
    Some(match sel {
        Sel::Text { r, b, e } => json!({"@type": "TextSelector", "resource": req_id(&m.res_target(r).req, "R"), "offset": offset_json(b, e)}),
        Sel::Resource { r } => json!({"@type": "ResourceSelector", "resource": req_id(&m.res_target(r).req, "R")}),
        Sel::DataSet { s } => json!({"@type": "DataSetSelector", "annotationset": req_id(&m.set_target(s).req, "S")}),
        Sel::Key { s, k } => {
            let ts = m.set_target(s);
            let set = ts.uid?;
            json!({"@type": "DataKeySelector", "annotationset": req_id(&ts.req, "S"), "key": req_id(&m.key_target(set, k).req, "K")})
        }
        Sel::Data { s, d } => {
            let ts = m.set_target(s);
            let set = ts.uid?;
            json!({"@type": "AnnotationDataSelector", "annotationset": req_id(&ts.req, "S"), "data": req_id(&m.data_target(set, d).req, "D")})
        }
        Sel::Annotation { a, offset } => match offset {
            Some((b, e)) => json!({"@type": "AnnotationSelector", "annotation": req_id(&m.ann_target(a).req, "A"), "offset": offset_json(b, e)}),
            None => json!({"@type": "AnnotationSelector", "annotation": req_id(&m.ann_target(a).req, "A")}),
        },
        Sel::Multi(v) | Sel::Composite(v) | Sel::Directional(v) => {
            let mut subs = Vec::new();
            for x in v {
                subs.push(selector_json(m, x)?);
            }
            json!({"@type": sel.kind(), "selectors": subs})
        }
        Sel::Missing => return None,
    })
}

/// the file content for `annotate_from_file`; None if a request cannot be written down (ghost references)
pub fn annotations_json(m: &Model, items: &[(Option<String>, Sel, Vec<DataSpec>)], fault: FileFault) -> Option<Vec<u8>> {
    use serde_json::json;
    let mut scratch = m.clone();
    let mut elements: Vec<String> = Vec::new();
    for (i, (id, target, data)) in items.iter().enumerate() {
        let last = i + 1 == items.len();
        let mut obj = serde_json::Map::new();
        obj.insert("@type".into(), json!("Annotation"));
        if let Some(id) = id {
            obj.insert("@id".into(), json!(id));
        }
        match (last, fault) {
            (true, FileFault::DropTarget) => {}
            (true, FileFault::Garbage) => {
                obj.insert("target".into(), json!(42));
            }
            _ => {
                obj.insert("target".into(), selector_json(&scratch, target)?);
            }
        }
        let mut djson = Vec::new();
        let mut fx = Effects::default();
        let mut dscratch = scratch.clone();
        for spec in data {
            match spec {
                DataSpec::New { set, key, value, id } => {
                    let set = match set {
                        SetRef::Existing(r) => req_id(&dscratch.set_target(r).req, "S"),
                        SetRef::Literal(s) => s.clone(),
                        SetRef::Unnamed => crate::ops::DEFAULT_SET.to_string(),
                    };
                    let mut d = serde_json::Map::new();
                    d.insert("@type".into(), json!("AnnotationData"));
                    if let Some(id) = id {
                        d.insert("@id".into(), json!(id));
                    }
                    d.insert("set".into(), json!(set));
                    d.insert("key".into(), json!(key));
                    d.insert("value".into(), serde_json::to_value(value.to_datavalue()).ok()?);
                    djson.push(serde_json::Value::Object(d));
                }
                DataSpec::Existing { set, data } => {
                    let ts = dscratch.set_target(set);
                    let su = ts.uid?;
                    djson.push(json!({"@type": "AnnotationData", "@id": req_id(&dscratch.data_target(su, data).req, "D"), "set": req_id(&ts.req, "S")}));
                }
            }
            let _ = dscratch.apply_dataspec(spec, &mut fx);
        }
        obj.insert("data".into(), serde_json::Value::Array(djson));
        elements.push(serde_json::to_string(&serde_json::Value::Object(obj)).ok()?);
        if !last || fault == FileFault::None {
            scratch.apply_sequential(&Op::Annotate { id: id.clone(), target: target.clone(), data: data.clone() });
        }
    }
    let mut text = String::from("[");
    for (i, e) in elements.iter().enumerate() {
        if i > 0 {
            text.push_str(",\n");
        }
        if i + 1 == elements.len() {
            if let FileFault::Truncate(permille) = fault {
                let mut cut = (e.len() * permille.min(999)) / 1000;
                while !e.is_char_boundary(cut) {
                    cut -= 1;
                }
                text.push_str(&e[..cut]);
                return Some(text.into_bytes());
            }
        }
        text.push_str(e);
    }
    text.push(']');
    Some(text.into_bytes())
}
