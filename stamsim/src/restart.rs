//! Restart: the primary store is replaced by its own reload through durable state (SimFs),
//! in a chosen format and layout. The history then continues on the reloaded store.

use crate::exec::*;
use crate::model::*;
use crate::obs::Violation;
use crate::ops::Format;
use crate::world::{RunStats, World};
use stam::*;

const DIR: &str = "/sim";

fn owner(format: Format) -> &'static str {
    match format {
        Format::Cbor => "C11",
        Format::Csv => "C15",
        _ => "C05",
    }
}

/// adopt the handles of the reloaded store by order (i-th live item <-> i-th live item)
pub fn rebind_by_order(world: &mut World, new: &AnnotationStore, format: Format) -> Vec<Violation> {
    let mut out = Vec::new();
    let own = owner(format);
    let m = &mut world.model;
    let res: Vec<usize> = new.resources().map(|r| r.handle().as_usize()).collect();
    let live: Vec<usize> = m.resources.iter().enumerate().filter(|(_, r)| r.live).map(|(i, _)| i).collect();
    if res.len() != live.len() {
        out.push(Violation::new(own, "mismatch", "reload.resources.count", format!("expected {} resources got {}", live.len(), res.len())));
        return out;
    }
    for (u, h) in live.iter().zip(res.iter()) {
        m.resources[*u].handle = *h;
    }
    m.res_slots = new.resources_len();
    let sets: Vec<usize> = new.datasets().map(|r| r.handle().as_usize()).collect();
    let live: Vec<usize> = m.datasets.iter().enumerate().filter(|(_, r)| r.live).map(|(i, _)| i).collect();
    if sets.len() != live.len() {
        out.push(Violation::new(own, "mismatch", "reload.datasets.count", format!("expected {} datasets got {}", live.len(), sets.len())));
        return out;
    }
    for (u, h) in live.iter().zip(sets.iter()) {
        m.datasets[*u].handle = *h;
        let ds = new.dataset(AnnotationDataSetHandle::new(*h)).expect("handle from the store itself");
        let keys: Vec<usize> = ds.keys().map(|k| k.handle().as_usize()).collect();
        let livek: Vec<usize> = m.datasets[*u].keys.iter().enumerate().filter(|(_, k)| k.live).map(|(i, _)| i).collect();
        if keys.len() != livek.len() {
            out.push(Violation::new(own, "mismatch", "reload.keys.count", format!("set {}: expected {} keys got {}", m.datasets[*u].id, livek.len(), keys.len())));
            return out;
        }
        for (k, kh) in livek.iter().zip(keys.iter()) {
            m.datasets[*u].keys[*k].handle = *kh;
        }
        m.datasets[*u].key_slots = ds.as_ref().keys_len();
        let data: Vec<usize> = ds.data().map(|k| k.handle().as_usize()).collect();
        let lived: Vec<usize> = m.datasets[*u].data.iter().enumerate().filter(|(_, k)| k.live).map(|(i, _)| i).collect();
        if data.len() != lived.len() {
            out.push(Violation::new(own, "mismatch", "reload.data.count", format!("set {}: expected {} data got {}", m.datasets[*u].id, lived.len(), data.len())));
            return out;
        }
        for (d, dh) in lived.iter().zip(data.iter()) {
            m.datasets[*u].data[*d].handle = *dh;
        }
        m.datasets[*u].data_slots = ds.as_ref().data_len();
    }
    m.set_slots = new.datasets_len();
    let anns: Vec<usize> = new.annotations().map(|r| r.handle().as_usize()).collect();
    let live: Vec<usize> = m.annotations.iter().enumerate().filter(|(_, r)| r.live).map(|(i, _)| i).collect();
    if anns.len() != live.len() {
        out.push(Violation::new(own, "mismatch", "reload.annotations.count", format!("expected {} annotations got {}", live.len(), anns.len())));
        return out;
    }
    for (u, h) in live.iter().zip(anns.iter()) {
        m.annotations[*u].handle = *h;
    }
    m.ann_slots = new.annotations_len();
    // selections that no live annotation refers to are not part of the serialisation
    let mut referenced: Vec<Vec<(usize, usize)>> = vec![Vec::new(); m.resources.len()];
    for a in m.annotations.iter().filter(|a| a.live) {
        for leaf in a.target.leaves() {
            if let Some(t) = leaf.text_target() {
                if !referenced[t.res].contains(&(t.b, t.e)) {
                    referenced[t.res].push((t.b, t.e));
                }
            }
        }
    }
    for (u, r) in m.resources.iter_mut().enumerate() {
        r.sels = referenced[u].clone();
    }
    // removed items are gone for good: their old handles must not shadow live ones
    for r in m.resources.iter_mut().filter(|r| !r.live) {
        r.handle = usize::MAX / 2;
    }
    for s in m.datasets.iter_mut() {
        if !s.live {
            s.handle = usize::MAX / 2;
        }
        for k in s.keys.iter_mut().filter(|k| !k.live) {
            k.handle = usize::MAX / 2;
        }
        for d in s.data.iter_mut().filter(|d| !d.live) {
            d.handle = usize::MAX / 2;
        }
    }
    for a in m.annotations.iter_mut().filter(|a| !a.live) {
        a.handle = usize::MAX / 2;
    }
    out
}

pub fn restart(world: &mut World, format: Format, stats: &mut RunStats) -> (ExecResult, Vec<Violation>) {
    let own = owner(format);
    let mut violations = Vec::new();
    let n = world.restart_count;
    if world.model.annotations.iter().any(|a| !a.live) || world.model.datasets.iter().any(|s| s.data.iter().any(|d| !d.live)) {
        stats.probe("restart_with_tombstones");
    }
    match format {
        Format::JsonInline | Format::JsonCompact => {
            let compact = format == Format::JsonCompact;
            let cfg = world.cfg.config().with_dataformat(DataFormat::Json { compact });
            let first = match catch(|| world.store.to_json_string(&cfg)) {
                Ok(Ok(s)) => s,
                Ok(Err(e)) => {
                    return (ExecResult::Err(format!("save: {}", e)), violations);
                }
                Err(p) => return (ExecResult::Panic(format!("save: {}", p)), violations),
            };
            let cfg2 = world.cfg.config().with_dataformat(DataFormat::Json { compact });
            let new = match catch(|| AnnotationStore::from_str(&first, cfg2)) {
                Ok(Ok(s)) => s,
                Ok(Err(e)) => {
                    let mut snippet = first.clone();
                    trunc(&mut snippet, 300);
                    return (ExecResult::Err(format!("load: {} -- {}", e, snippet)), violations);
                }
                Err(p) => return (ExecResult::Panic(format!("load: {}", p)), violations),
            };
            violations.append(&mut rebind_by_order(world, &new, format));
            // writing the reloaded store again produces identical output
            match catch(|| new.to_json_string(&cfg)) {
                Ok(Ok(second)) => {
                    if second != first {
                        violations.push(Violation::new(own, "mismatch", "reserialise.json", format!("second serialisation differs: {}", first_diff(&first, &second))));
                    }
                }
                Ok(Err(e)) => violations.push(Violation::new(own, "outcome", "reserialise.json", format!("{}", e))),
                Err(p) => violations.push(Violation::new(own, "panic", "reserialise.json", normalise_panic(&p))),
            }
            world.store = new;
            (ExecResult::Ok(None), violations)
        }
        Format::Cbor => {
            let path = format!("{}/s{}.store.stam.cbor", DIR, n);
            let before = catch(|| world.store.verif_dump()).ok();
            let r = catch(|| {
                world.store.set_filename(&path);
                world.store.save()
            });
            match r {
                Ok(Ok(())) => {}
                Ok(Err(e)) => return (ExecResult::Err(format!("save: {}", e)), violations),
                Err(p) => return (ExecResult::Panic(format!("save: {}", p)), violations),
            }
            let cfg = world.cfg.config();
            let new = match catch(|| AnnotationStore::from_file(&path, cfg)) {
                Ok(Ok(s)) => s,
                Ok(Err(e)) => return (ExecResult::Err(format!("load: {}", e)), violations),
                Err(p) => return (ExecResult::Panic(format!("load: {}", p)), violations),
            };
            // indices are stored, not rebuilt: identical, entry by entry
            if let (Some(mut before), Ok(mut after)) = (before, catch(|| new.verif_dump())) {
                // the changed flags are deliberately not stored
                for d in [&mut before, &mut after] {
                    d.changed = false;
                    for (_, s) in d.datasets.iter_mut() {
                        s.changed = false;
                    }
                    for (_, r) in d.resources.iter_mut() {
                        r.changed = false;
                    }
                }
                if before != after {
                    violations.push(Violation::new("C11", "mismatch", "reload.cbor.index_dump", cbor_dump_diff(&before, &after)));
                }
            }
            world.store = new;
            (ExecResult::Ok(None), violations)
        }
        Format::JsonInclude => crate::restart_files::restart_json_include(world, stats),
        Format::Csv => crate::restart_files::restart_csv(world, stats),
    }
}

pub fn first_diff(a: &str, b: &str) -> String {
    let ab: Vec<char> = a.chars().collect();
    let bb: Vec<char> = b.chars().collect();
    let mut i = 0;
    while i < ab.len() && i < bb.len() && ab[i] == bb[i] {
        i += 1;
    }
    let lo = i.saturating_sub(40);
    let sa: String = ab[lo..(i + 40).min(ab.len())].iter().collect();
    let sb: String = bb[lo..(i + 40).min(bb.len())].iter().collect();
    format!("at char {}: {:?} vs {:?}", i, sa, sb)
}

fn cbor_dump_diff(a: &stam::verif_hooks::IndexDump, b: &stam::verif_hooks::IndexDump) -> String {
    let mut parts: Vec<String> = Vec::new();
    macro_rules! f {
        ($name:ident) => {
            if a.$name != b.$name {
                parts.push(format!("{}: {:?} -> {:?}", stringify!($name), a.$name, b.$name));
            }
        };
    }
    f!(annotations_len);
    f!(resources_len);
    f!(datasets_len);
    f!(dataset_data_annotation_map);
    f!(textrelationmap);
    f!(resource_annotation_metamap);
    f!(dataset_annotation_metamap);
    f!(annotation_annotation_map);
    f!(key_annotation_map);
    f!(key_annotation_metamap);
    f!(data_annotation_metamap);
    f!(annotation_idmap);
    f!(resource_idmap);
    f!(dataset_idmap);
    f!(substore_idmap);
    if a.datasets != b.datasets {
        parts.push(format!("datasets: {:?} -> {:?}", a.datasets, b.datasets));
    }
    if a.resources != b.resources {
        parts.push(format!("resources: {:?} -> {:?}", a.resources, b.resources));
    }
    let mut s = parts.join("; ");
    trunc(&mut s, 800);
    s
}
