//! The trace language: concrete operations. Items are referenced by *creation index* (modulo the
//! number of items ever created), so every subsequence of a trace is again a meaningful trace,
//! which is what makes minimisation work.

use serde::{Deserialize, Serialize};

#[derive(Clone, Debug, Serialize, Deserialize, PartialEq)]
pub enum Val {
    Null,
    Bool(bool),
    Int(i64),
    Float(f64),
    Str(String),
    List(Vec<Val>),
    /// RFC 3339
    Datetime(String),
}

impl Val {
    pub fn to_datavalue(&self) -> stam::DataValue {
        match self {
            Val::Null => stam::DataValue::Null,
            Val::Bool(b) => stam::DataValue::Bool(*b),
            Val::Int(i) => stam::DataValue::Int(*i as isize),
            Val::Float(f) => stam::DataValue::Float(*f),
            Val::Str(s) => stam::DataValue::String(s.clone()),
            Val::List(v) => stam::DataValue::List(v.iter().map(|x| x.to_datavalue()).collect()),
            Val::Datetime(s) => stam::DataValue::Datetime(
                stam::DateTime::parse_from_rfc3339(s).expect("generator only emits valid datetimes"),
            ),
        }
    }
}

#[derive(Clone, Copy, Debug, Serialize, Deserialize, PartialEq)]
pub enum Cur {
    B(usize),
    E(isize),
}

impl Cur {
    pub fn to_cursor(&self) -> stam::Cursor {
        match self {
            Cur::B(x) => stam::Cursor::BeginAligned(*x),
            Cur::E(x) => stam::Cursor::EndAligned(*x),
        }
    }
    /// resolve against a text of length `len`: Some(absolute position relative to the text start) if
    /// it lies in 0..=len
    pub fn resolve(&self, len: usize) -> Option<usize> {
        match self {
            Cur::B(x) => {
                if *x <= len {
                    Some(*x)
                } else {
                    None
                }
            }
            Cur::E(x) => {
                if *x > 0 {
                    return None;
                }
                let d = x.unsigned_abs();
                if d <= len {
                    Some(len - d)
                } else {
                    None
                }
            }
        }
    }
}

/// How a reference is handed to the library
#[derive(Clone, Copy, Debug, Serialize, Deserialize, PartialEq)]
pub enum By {
    Id,
    Handle,
    /// by the temporary id of the item's handle (`!A3`, `!R0`, `!S1`, `!K2`, `!D5`), whether or not it has a public id
    Temp,
}

/// Reference to an item by creation index (taken modulo the number of items of that kind ever
/// created in the model; if none exist the reference is a ghost and the request is invalid)
#[derive(Clone, Copy, Debug, Serialize, Deserialize, PartialEq)]
pub struct Ref {
    pub idx: usize,
    pub by: By,
}

impl Ref {
    pub fn id(idx: usize) -> Self {
        Ref { idx, by: By::Id }
    }
    pub fn handle(idx: usize) -> Self {
        Ref {
            idx,
            by: By::Handle,
        }
    }
}

#[derive(Clone, Debug, Serialize, Deserialize, PartialEq)]
pub enum Sel {
    Text { r: Ref, b: Cur, e: Cur },
    Resource { r: Ref },
    DataSet { s: Ref },
    Key { s: Ref, k: Ref },
    Data { s: Ref, d: Ref },
    Annotation { a: Ref, offset: Option<(Cur, Cur)> },
    Multi(Vec<Sel>),
    Composite(Vec<Sel>),
    Directional(Vec<Sel>),
    /// no target at all (the builder is submitted without a target): must be refused
    Missing,
}

impl Sel {
    pub fn is_complex(&self) -> bool {
        matches!(self, Sel::Multi(_) | Sel::Composite(_) | Sel::Directional(_))
    }
    pub fn kind(&self) -> &'static str {
        match self {
            Sel::Text { .. } => "TextSelector",
            Sel::Resource { .. } => "ResourceSelector",
            Sel::DataSet { .. } => "DataSetSelector",
            Sel::Key { .. } => "DataKeySelector",
            Sel::Data { .. } => "AnnotationDataSelector",
            Sel::Annotation { .. } => "AnnotationSelector",
            Sel::Multi(_) => "MultiSelector",
            Sel::Composite(_) => "CompositeSelector",
            Sel::Directional(_) => "DirectionalSelector",
            Sel::Missing => "(no target)",
        }
    }
}

#[derive(Clone, Debug, Serialize, Deserialize, PartialEq)]
pub enum DataSpec {
    /// new (or deduplicated) data by key and value; the dataset is referenced by id string
    /// (a dataset that does not exist is created on the fly, as documented)
    New {
        set: SetRef,
        key: String,
        value: Val,
        id: Option<String>,
    },
    /// reference to existing data
    Existing { set: Ref, data: Ref },
}

/// A dataset reference in a data specification: either an existing set, or a literal id
#[derive(Clone, Debug, Serialize, Deserialize, PartialEq)]
pub enum SetRef {
    Existing(Ref),
    Literal(String),
    /// no dataset is named: the data goes to the default set, which the first such request creates
    Unnamed,
}

pub const DEFAULT_SET: &str = "default-annotationset";

#[derive(Clone, Copy, Debug, Serialize, Deserialize, PartialEq)]
pub enum ProtectMode {
    Auto,
    Checksum,
    Text,
    Both,
}

#[derive(Clone, Copy, Debug, Serialize, Deserialize, PartialEq, Eq, PartialOrd, Ord)]
pub enum Format {
    JsonInline,
    JsonInclude,
    JsonCompact,
    Cbor,
    Csv,
}

/// What is wrong with the last element of an annotations file (a fault at the level of the file format)
#[derive(Clone, Copy, Debug, Serialize, Deserialize, PartialEq)]
pub enum FileFault {
    None,
    /// the file ends inside the last element, at this per-mille of its length
    Truncate(usize),
    /// the last element has no target
    DropTarget,
    /// the last element's target is not a selector
    Garbage,
}

#[derive(Clone, Debug, Serialize, Deserialize, PartialEq)]
pub enum Op {
    AddResource {
        id: String,
        text: String,
        /// the resource is built by hand (`TextResource::new(..).with_string(first).with_string(text)`, then
        /// `store.insert`) and held this other text first: everything derived from the first text must be gone
        #[serde(default)]
        replaced: Option<String>,
    },
    AddDataset {
        id: String,
        keys: Vec<String>,
        data: Vec<(Option<String>, String, Val)>,
    },
    InsertData {
        set: SetRef,
        id: Option<String>,
        key: String,
        value: Val,
    },
    /// declare a key without data (low-level insert of a DataKey into an existing dataset)
    AddKey {
        s: Ref,
        key: String,
    },
    Annotate {
        id: Option<String>,
        target: Sel,
        data: Vec<DataSpec>,
    },
    /// several builders in one `annotate_from_iter` call
    AnnotateBatch {
        items: Vec<(Option<String>, Sel, Vec<DataSpec>)>,
    },
    /// the builders written as a STAM JSON list of annotations into SimFs and loaded with annotate_from_file
    AnnotateFile {
        items: Vec<(Option<String>, Sel, Vec<DataSpec>)>,
        fault: FileFault,
    },
    RemoveAnnotation {
        a: Ref,
    },
    /// remove every annotation that has text on the resource (the resource stays): as one DELETE query,
    /// or as the equivalent direct calls (remove each of them unless a cascade already removed it)
    RemoveAnnotationsOn {
        r: Ref,
    },
    RemoveData {
        s: Ref,
        d: Ref,
        strict: bool,
    },
    RemoveKey {
        s: Ref,
        k: Ref,
        strict: bool,
    },
    RemoveResource {
        r: Ref,
    },
    RemoveDataset {
        s: Ref,
    },
    ProtectText {
        mode: ProtectMode,
    },
    StripAnnotationIds,
    StripDataIds,
    Reindex,
    Restart {
        format: Format,
    },
    /// save without reloading (CSV and JSON with stand-off files): the store lives on, its changed
    /// flags are cleared, and a later restart must find every later change in the files
    Checkpoint {
        format: Format,
    },
}

impl Op {
    pub fn kind(&self) -> &'static str {
        match self {
            Op::AddResource { .. } => "add_resource",
            Op::AddDataset { .. } => "add_dataset",
            Op::InsertData { .. } => "insert_data",
            Op::AddKey { .. } => "add_key",
            Op::Annotate { .. } => "annotate",
            Op::AnnotateBatch { .. } => "annotate_batch",
            Op::AnnotateFile { fault: FileFault::None, .. } => "annotate_file",
            Op::AnnotateFile { .. } => "annotate_file_torn",
            Op::RemoveAnnotation { .. } => "remove_annotation",
            Op::RemoveAnnotationsOn { .. } => "remove_annotations_on_resource",
            Op::RemoveData { strict: true, .. } => "remove_data_strict",
            Op::RemoveData { strict: false, .. } => "remove_data_nonstrict",
            Op::RemoveKey { strict: true, .. } => "remove_key_strict",
            Op::RemoveKey { strict: false, .. } => "remove_key_nonstrict",
            Op::RemoveResource { .. } => "remove_resource",
            Op::RemoveDataset { .. } => "remove_dataset",
            Op::ProtectText { .. } => "protect_text",
            Op::StripAnnotationIds => "strip_annotation_ids",
            Op::StripDataIds => "strip_data_ids",
            Op::Reindex => "reindex",
            Op::Checkpoint { .. } => "checkpoint",
            Op::Restart { format } => match format {
                Format::JsonInline => "restart_json_inline",
                Format::JsonInclude => "restart_json_include",
                Format::JsonCompact => "restart_json_compact",
                Format::Cbor => "restart_cbor",
                Format::Csv => "restart_csv",
            },
        }
    }
    pub fn is_removal(&self) -> bool {
        matches!(
            self,
            Op::RemoveAnnotation { .. }
                | Op::RemoveAnnotationsOn { .. }
                | Op::RemoveData { .. }
                | Op::RemoveKey { .. }
                | Op::RemoveResource { .. }
                | Op::RemoveDataset { .. }
        )
    }
}
