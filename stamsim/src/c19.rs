//! C19: loading untrusted serialisations never panics, aborts, exhausts memory or hangs.
//!
//! Valid serialisations are produced by the simulator itself from generated histories, then
//! corrupted: storage-level faults (truncation, bit flips, zeroed / duplicated / swapped chunks,
//! torn re-save, missing or stale include) and structure-aware faults (fields deleted, retyped,
//! re-ordered; dangling, cyclic and forward references; extreme integers; temporary ids).
//! Loads run in supervised worker *processes*: panics are caught in the worker, aborts (allocation
//! failure under the per-case budget, double panic), signals and hangs are seen by the parent and
//! attributed to the case the worker announced.

use crate::exec::*;
use crate::gen::*;
use crate::model::Model;
use crate::obs::Checker;
use crate::ops::Format;
use crate::rng::{self, Rng};
use crate::runner::{load_known_findings, root, verif_seed, workers};
use crate::simfs::SimFs;
use crate::world::*;
use serde::{Deserialize, Serialize};
use stam::*;
use std::collections::{BTreeMap, BTreeSet};
use std::io::{BufRead, BufReader, Write};
use std::process::{Command, Stdio};
use std::sync::atomic::Ordering;
use std::time::{Duration, Instant};

#[derive(Clone, Copy, Debug, Serialize, Deserialize, PartialEq, Eq, PartialOrd, Ord)]
pub enum Kind {
    JsonStore,
    JsonStoreInclude,
    JsonStoreSubstores,
    /// a store file merged into a store that is not empty (`with_file` on a loaded store)
    JsonStoreMerge,
    JsonDataset,
    JsonAnnotations,
    JsonAnnotation,
    CsvStore,
    Cbor,
    StrCursor,
    StrType,
    StrDataFormat,
    StrSelectorKind,
}

impl Kind {
    pub fn name(&self) -> &'static str {
        match self {
            Kind::JsonStore => "json_store",
            Kind::JsonStoreInclude => "json_store_include",
            Kind::JsonStoreSubstores => "json_store_substores",
            Kind::JsonStoreMerge => "json_store_merge",
            Kind::JsonDataset => "json_dataset",
            Kind::JsonAnnotations => "json_annotations",
            Kind::JsonAnnotation => "json_annotation",
            Kind::CsvStore => "csv_store",
            Kind::Cbor => "cbor",
            Kind::StrCursor => "str_cursor",
            Kind::StrType => "str_type",
            Kind::StrDataFormat => "str_dataformat",
            Kind::StrSelectorKind => "str_selectorkind",
        }
    }
}

#[derive(Clone, Debug, Serialize, Deserialize)]
pub struct Case {
    pub kind: Kind,
    /// the file system content handed to the loader (hex per file)
    pub files: BTreeMap<String, String>,
    /// the file to load, or the literal string for the small parsers
    pub main: String,
    /// for annotate_from_file: the (valid) store the annotations are loaded into
    pub base_store_json: Option<String>,
    pub fault: String,
}

#[derive(Clone, Debug, Serialize, Deserialize)]
pub struct C19Replay {
    pub property: String,
    pub signature: String,
    pub seed: u64,
    pub case_index: u64,
    pub detail: String,
    pub case: Case,
}

fn hex(b: &[u8]) -> String {
    let mut s = String::with_capacity(b.len() * 2);
    for x in b {
        s.push_str(&format!("{:02x}", x));
    }
    s
}

fn unhex(s: &str) -> Vec<u8> {
    let b = s.as_bytes();
    let mut out = Vec::with_capacity(b.len() / 2);
    let mut i = 0;
    while i + 1 < b.len() {
        out.push(u8::from_str_radix(&s[i..i + 2], 16).unwrap_or(0));
        i += 2;
    }
    out
}

fn base_profile(rng: &mut Rng, g: &mut GenCfg, w: &mut WorldCfg) {
    g.n_ops = rng.range(6, 30);
    g.w[W_REMOVE_ANNOTATION] = 3;
    g.w[W_REMOVE_DATA] = 2;
    g.w[W_REMOVE_KEY] = 1;
    g.pct_invalid = 0;
    g.max_text_len = *rng.pick(&[3, 8, 20]);
    g.w[W_PROTECT] = *rng.pick(&[0, 1]);
    for i in 1..10 {
        g.wsel[i] = g.wsel[i].max(4);
    }
    for i in 7..10 {
        g.wsel[i] = g.wsel[i].max(10);
    }
    w.ids_every = 0;
}

const MUTATIONS_PER_BASE: u64 = 64;

const MERGE_BASE: &str = r#"{"@type":"AnnotationStore","@id":"mergebase","resources":[{"@type":"TextResource","@id":"mb_r","text":"merge base text"}],"annotationsets":[{"@type":"AnnotationDataSet","@id":"mb_s","keys":[{"@type":"DataKey","@id":"mb_k"}],"data":[{"@type":"AnnotationData","@id":"mb_d","key":"mb_k","value":{"@type":"String","value":"v"}}]}],"annotations":[{"@type":"Annotation","@id":"mb_a","target":{"@type":"TextSelector","resource":"mb_r","offset":{"@type":"Offset","begin":{"@type":"BeginAlignedCursor","value":0},"end":{"@type":"BeginAlignedCursor","value":5}}},"data":[{"@type":"AnnotationData","@id":"mb_d","set":"mb_s"}]},{"@type":"Annotation","target":{"@type":"AnnotationSelector","annotation":"mb_a"},"data":[{"@type":"AnnotationData","@id":"mb_d","set":"mb_s"}]}]}"#;

/// the valid serialisation for base store b and kind, as files + main
fn base_serialisation(seed: u64, base: u64, kind: Kind) -> Option<(BTreeMap<String, Vec<u8>>, String, Option<String>)> {
    let rs = rng::run_seed(seed, "C19-base", base);
    let (mut world, _ops) = generate_world(rs, &base_profile);
    let mut files: BTreeMap<String, Vec<u8>> = BTreeMap::new();
    let mut stats = RunStats::default();
    match kind {
        Kind::JsonStore => {
            let cfg = Config::new();
            let s = catch(|| world.store.to_json_string(&cfg)).ok()?.ok()?;
            files.insert("/in/store.store.stam.json".to_string(), s.into_bytes());
            Some((files, "/in/store.store.stam.json".to_string(), None))
        }
        Kind::JsonStoreInclude => {
            world.fs.clear();
            let (r, _) = crate::restart_files::restart_json_include(&mut world, &mut stats);
            if !matches!(r, ExecResult::Ok(_)) {
                return None;
            }
            let snap = world.fs.snapshot();
            let main = snap.keys().find(|k| k.ends_with("store.store.stam.json"))?.clone();
            Some((snap, main, None))
        }
        Kind::JsonStoreSubstores => {
            // one level of sub-stores: main includes sub1 and sub2, sub2 includes sub1 again (shared)
            let cfg = Config::new();
            let s = catch(|| world.store.to_json_string(&cfg)).ok()?.ok()?;
            files.insert("/in/sub1.store.stam.json".to_string(), s.into_bytes());
            files.insert(
                "/in/sub2.store.stam.json".to_string(),
                br#"{"@type": "AnnotationStore", "@id": "sub2", "@include": "/in/sub1.store.stam.json", "resources": [], "annotationsets": [], "annotations": []}"#.to_vec(),
            );
            files.insert(
                "/in/main.store.stam.json".to_string(),
                br#"{"@type": "AnnotationStore", "@id": "main", "@include": ["/in/sub1.store.stam.json", "/in/sub2.store.stam.json"], "resources": [], "annotationsets": [], "annotations": []}"#.to_vec(),
            );
            Some((files, "/in/main.store.stam.json".to_string(), None))
        }
        Kind::JsonStoreMerge => {
            // the file is merged into a store that already has items: either a small store with ids of
            // its own (temporary ids of the file are then offset), or the very same store (every id of
            // the file exists already: the merge paths)
            let cfg = Config::new();
            let s = catch(|| world.store.to_json_string(&cfg)).ok()?.ok()?;
            let into = if base % 2 == 0 { MERGE_BASE.to_string() } else { s.clone() };
            files.insert("/in/other.store.stam.json".to_string(), s.into_bytes());
            Some((files, "/in/other.store.stam.json".to_string(), Some(into)))
        }
        Kind::JsonDataset => {
            let ds = world.store.datasets().next()?;
            let s = catch(|| ds.as_ref().to_json_string()).ok()?.ok()?;
            files.insert("/in/set.annotationset.stam.json".to_string(), s.into_bytes());
            Some((files, "/in/set.annotationset.stam.json".to_string(), None))
        }
        Kind::JsonAnnotations | Kind::JsonAnnotation => {
            // annotations as a JSON list, to be loaded into a store that has the resources and datasets
            let cfg = Config::new();
            let full = catch(|| world.store.to_json_string(&cfg)).ok()?.ok()?;
            let v: serde_json::Value = serde_json::from_str(&full).ok()?;
            let anns = v.get("annotations")?.clone();
            let mut base = v.clone();
            base.as_object_mut()?.insert("annotations".to_string(), serde_json::Value::Array(vec![]));
            if kind == Kind::JsonAnnotation {
                let first = anns.as_array()?.first()?.clone();
                Some((files, serde_json::to_string_pretty(&first).ok()?, None))
            } else {
                files.insert("/in/annotations.json".to_string(), serde_json::to_string_pretty(&anns).ok()?.into_bytes());
                Some((files, "/in/annotations.json".to_string(), Some(serde_json::to_string(&base).ok()?)))
            }
        }
        Kind::CsvStore => {
            world.fs.clear();
            let (r, _) = crate::restart_files::restart_csv(&mut world, &mut stats);
            let snap = world.fs.snapshot();
            let main = snap.keys().find(|k| k.ends_with("store.store.stam.csv"))?.clone();
            let _ = r; // even if the library cannot read its own CSV back, the files are a fine starting point
            Some((snap, main, None))
        }
        Kind::Cbor => {
            world.fs.clear();
            let path = "/in/store.store.stam.cbor".to_string();
            let r = catch(|| {
                world.store.set_filename(&path);
                world.store.save()
            });
            if !matches!(r, Ok(Ok(()))) {
                return None;
            }
            Some((world.fs.snapshot(), path, None))
        }
        _ => None,
    }
}

const EXTREME_NUMBERS: &[&str] = &[
    "0", "-0", "-1", "1", "9007199254740992", "-9007199254740992", "18446744073709551615", "18446744073709551616",
    "-9223372036854775808", "9223372036854775807", "4294967295", "4294967296", "65535", "65536", "1e308", "1.5",
    "-1e-5", "3000000", "99999999999999999999999999",
];

const TEMP_IDS: &[&str] = &[
    "!A0", "!A1", "!A3000000", "!A4294967295", "!A4294967296", "!A18446744073709551615", "!D0", "!D5", "!D3000000",
    "!D9223372036854775808", "!R0", "!S0", "!K0", "!É1", "!A", "!", "!A-1", "!A+1", "!A007", "",
];

fn mutate_bytes(rng: &mut Rng, data: &mut Vec<u8>) -> String {
    if data.is_empty() {
        data.push(rng.below(256) as u8);
        return "insert_into_empty".to_string();
    }
    let n = data.len();
    match rng.below(10) {
        0 | 1 => {
            let k = rng.below(n);
            data.truncate(k);
            format!("truncate@{}", k)
        }
        2 | 3 => {
            let k = rng.below(n);
            let bit = rng.below(8);
            data[k] ^= 1 << bit;
            format!("bitflip@{}.{}", k, bit)
        }
        4 => {
            for _ in 0..2 {
                let k = rng.below(n);
                data[k] ^= 1 << rng.below(8);
            }
            "double_bitflip".to_string()
        }
        5 => {
            let k = rng.below(n);
            let len = rng.range(1, 16).min(n - k);
            for b in &mut data[k..k + len] {
                *b = 0;
            }
            format!("zero_chunk@{}+{}", k, len)
        }
        6 => {
            let k = rng.below(n);
            let len = rng.range(1, 32).min(n - k);
            let chunk: Vec<u8> = data[k..k + len].to_vec();
            let at = rng.below(n + 1);
            for (i, b) in chunk.iter().enumerate() {
                data.insert(at + i, *b);
            }
            format!("dup_chunk@{}+{}->{}", k, len, at)
        }
        7 => {
            let a = rng.below(n);
            let b = rng.below(n);
            let len = rng.range(1, 16).min(n - a.max(b));
            for i in 0..len {
                data.swap(a + i, b + i);
            }
            format!("swap_chunks@{}<->{}+{}", a, b, len)
        }
        8 => {
            let k = rng.below(n + 1);
            let len = rng.range(1, 8);
            for i in 0..len {
                data.insert(k + i, rng.below(256) as u8);
            }
            format!("insert_random@{}+{}", k, len)
        }
        _ => {
            let k = rng.below(n);
            data[k] = *rng.pick(&[0xff, 0x00, 0x7f, 0x80, 0x1b, 0x9b, 0xbb, 0x3b, b'"', b'{', b'[', b',', b';', b'\n']);
            format!("set_byte@{}", k)
        }
    }
}

/// replace one digit run / one quoted id in the text by an extreme value
fn mutate_text_tokens(rng: &mut Rng, text: &str) -> (String, String) {
    let bytes = text.as_bytes();
    // collect digit runs and quoted strings
    let mut runs: Vec<(usize, usize, bool)> = Vec::new();
    let mut i = 0;
    while i < bytes.len() {
        if bytes[i].is_ascii_digit() || (bytes[i] == b'-' && i + 1 < bytes.len() && bytes[i + 1].is_ascii_digit()) {
            let s = i;
            i += 1;
            while i < bytes.len() && (bytes[i].is_ascii_digit() || bytes[i] == b'.') {
                i += 1;
            }
            runs.push((s, i, true));
        } else if bytes[i] == b'"' {
            let s = i + 1;
            i += 1;
            while i < bytes.len() && bytes[i] != b'"' {
                if bytes[i] == b'\\' {
                    i += 1;
                }
                i += 1;
            }
            if i <= bytes.len() && s <= i.min(bytes.len()) {
                runs.push((s, i.min(bytes.len()), false));
            }
            i += 1;
        } else {
            i += 1;
        }
    }
    if runs.is_empty() {
        return (text.to_string(), "no_tokens".to_string());
    }
    let (s, e, is_num) = *rng.pick(&runs);
    if !text.is_char_boundary(s) || !text.is_char_boundary(e) {
        return (text.to_string(), "no_tokens".to_string());
    }
    let repl = if is_num {
        rng.pick(EXTREME_NUMBERS).to_string()
    } else if rng.chance(1, 2) {
        rng.pick(TEMP_IDS).to_string()
    } else {
        // another string from the same document (creates dangling / crossed / cyclic references, duplicate ids)
        let others: Vec<&(usize, usize, bool)> = runs.iter().filter(|r| !r.2).collect();
        let (os, oe, _) = **rng.pick(&others);
        if text.is_char_boundary(os) && text.is_char_boundary(oe) {
            text[os..oe].to_string()
        } else {
            "x".to_string()
        }
    };
    let out = format!("{}{}{}", &text[..s], repl, &text[e..]);
    (out, format!("token@{}:{:?}->{:?}", s, &text[s..e], repl))
}

/// a random subtree of the document (clone)
fn pick_subtree(rng: &mut Rng, v: &serde_json::Value, depth: usize) -> serde_json::Value {
    use serde_json::Value;
    let stop = rng.chance(1, 4) || depth > 8;
    match v {
        Value::Object(map) if !map.is_empty() && !stop => {
            let keys: Vec<&String> = map.keys().collect();
            let k = (*rng.pick(&keys)).clone();
            pick_subtree(rng, map.get(&k).unwrap(), depth + 1)
        }
        Value::Array(items) if !items.is_empty() && !stop => {
            let i = rng.below(items.len());
            pick_subtree(rng, &items[i], depth + 1)
        }
        other => other.clone(),
    }
}

/// structure-aware fault on a parsed document; besides local edits it can graft a copy of another
/// subtree of the same document (nested selectors, crossed references) and inject an @include
fn mutate_json_document(rng: &mut Rng, v: &mut serde_json::Value, include_targets: &[String]) -> String {
    use serde_json::Value;
    match rng.below(10) {
        0 | 1 => {
            let donor = pick_subtree(rng, v, 0);
            let d = graft(rng, v, donor, 0);
            format!("graft_subtree:{}", d)
        }
        3 => {
            // nest a complex selector inside a complex selector (must be refused, never accepted or panicking)
            let mut complex: Vec<serde_json::Value> = Vec::new();
            collect_complex_selectors(v, &mut complex);
            if complex.is_empty() {
                return mutate_json_value(rng, v, 0);
            }
            let guest = rng.pick(&complex).clone();
            let mut guest2 = rng.pick(&complex).clone();
            if let Some(t) = guest2.get_mut("@type") {
                *t = Value::String(rng.pick(&["MultiSelector", "CompositeSelector", "DirectionalSelector"]).to_string());
            }
            let twice = rng.chance(1, 2);
            let n = rng.below(complex.len());
            let mut counter = 0usize;
            nest_into(v, n, &mut counter, &guest, if twice { Some(&guest2) } else { None });
            "nest_complex_selector".to_string()
        }
        2 if !include_targets.is_empty() => {
            // inject an @include into the top-level object (or into a random nested object)
            let target = rng.pick(include_targets).clone();
            let val = if rng.chance(1, 2) { Value::String(target.clone()) } else { Value::Array(vec![Value::String(target.clone())]) };
            if let Value::Object(map) = v {
                map.insert("@include".to_string(), val);
            }
            format!("inject_include:{}", target)
        }
        _ => mutate_json_value(rng, v, 0),
    }
}

fn is_complex_selector(v: &serde_json::Value) -> bool {
    matches!(v.get("@type").and_then(|t| t.as_str()), Some("MultiSelector") | Some("CompositeSelector") | Some("DirectionalSelector")) && v.get("selectors").map(|s| s.is_array()).unwrap_or(false)
}

fn collect_complex_selectors(v: &serde_json::Value, out: &mut Vec<serde_json::Value>) {
    use serde_json::Value;
    if is_complex_selector(v) {
        out.push(v.clone());
    }
    match v {
        Value::Object(map) => {
            for (_, x) in map.iter() {
                collect_complex_selectors(x, out);
            }
        }
        Value::Array(items) => {
            for x in items.iter() {
                collect_complex_selectors(x, out);
            }
        }
        _ => {}
    }
}

/// pushes the guest selector(s) into the selectors list of the n-th complex selector of the document
fn nest_into(v: &mut serde_json::Value, n: usize, counter: &mut usize, guest: &serde_json::Value, guest2: Option<&serde_json::Value>) -> bool {
    use serde_json::Value;
    if is_complex_selector(v) {
        if *counter == n {
            if let Some(Value::Array(items)) = v.get_mut("selectors") {
                items.push(guest.clone());
                if let Some(g2) = guest2 {
                    items.push(g2.clone());
                }
            }
            return true;
        }
        *counter += 1;
    }
    match v {
        Value::Object(map) => {
            for (_, x) in map.iter_mut() {
                if nest_into(x, n, counter, guest, guest2) {
                    return true;
                }
            }
        }
        Value::Array(items) => {
            for x in items.iter_mut() {
                if nest_into(x, n, counter, guest, guest2) {
                    return true;
                }
            }
        }
        _ => {}
    }
    false
}

fn graft(rng: &mut Rng, v: &mut serde_json::Value, donor: serde_json::Value, depth: usize) -> String {
    use serde_json::Value;
    let stop = rng.chance(1, 4) || depth > 8;
    match v {
        Value::Object(map) if !map.is_empty() && !stop => {
            let keys: Vec<String> = map.keys().cloned().collect();
            let k = rng.pick(&keys).clone();
            let d = graft(rng, map.get_mut(&k).unwrap(), donor, depth + 1);
            format!("{}/{}", k, d)
        }
        Value::Array(items) if !items.is_empty() && !stop => {
            let i = rng.below(items.len());
            if rng.chance(1, 3) {
                items.push(donor);
                "[push]".to_string()
            } else {
                let d = graft(rng, &mut items[i], donor, depth + 1);
                format!("[]/{}", d)
            }
        }
        other => {
            *other = donor;
            "=".to_string()
        }
    }
}

fn mutate_json_value(rng: &mut Rng, v: &mut serde_json::Value, depth: usize) -> String {
    use serde_json::Value;
    // descend randomly
    let descend = rng.chance(3, 4) && depth < 8;
    match v {
        Value::Object(map) if !map.is_empty() => {
            let keys: Vec<String> = map.keys().cloned().collect();
            let k = rng.pick(&keys).clone();
            if descend {
                return mutate_json_value(rng, map.get_mut(&k).unwrap(), depth + 1);
            }
            match rng.below(5) {
                0 => {
                    map.remove(&k);
                    format!("delete_field:{}", k)
                }
                1 => {
                    let val = map.get(&k).cloned().unwrap();
                    map.insert(format!("{}", rng.pick(&["@id", "@type", "@include", "resources", "annotations", "annotationsets", "data", "keys", "target", "offset", "begin", "end", "value", "key", "set", "selectors", "resource", "annotation"])), val);
                    format!("duplicate_field_as_other:{}", k)
                }
                2 => {
                    let nv = retype(rng, map.get(&k).unwrap());
                    map.insert(k.clone(), nv);
                    format!("retype_field:{}", k)
                }
                3 => {
                    let k2 = rng.pick(&keys).clone();
                    let a = map.get(&k).cloned().unwrap();
                    let b = map.get(&k2).cloned().unwrap();
                    map.insert(k.clone(), b);
                    map.insert(k2.clone(), a);
                    format!("swap_fields:{}<->{}", k, k2)
                }
                _ => {
                    map.insert(k.clone(), Value::Null);
                    format!("null_field:{}", k)
                }
            }
        }
        Value::Array(items) if !items.is_empty() => {
            let i = rng.below(items.len());
            if descend {
                return mutate_json_value(rng, &mut items[i], depth + 1);
            }
            match rng.below(5) {
                0 => {
                    items.remove(i);
                    "delete_element".to_string()
                }
                1 => {
                    let x = items[i].clone();
                    items.push(x);
                    "duplicate_element".to_string()
                }
                2 => {
                    items.reverse();
                    "reverse_array".to_string()
                }
                3 => {
                    let x = items[i].clone();
                    items[i] = retype(rng, &x);
                    "retype_element".to_string()
                }
                _ => {
                    let j = rng.below(items.len());
                    items.swap(i, j);
                    "swap_elements".to_string()
                }
            }
        }
        other => {
            let nv = retype(rng, other);
            *other = nv;
            "retype_leaf".to_string()
        }
    }
}

fn retype(rng: &mut Rng, v: &serde_json::Value) -> serde_json::Value {
    use serde_json::Value;
    match rng.below(8) {
        0 => Value::Null,
        1 => Value::Bool(rng.chance(1, 2)),
        2 => {
            let n: &str = *rng.pick(EXTREME_NUMBERS);
            serde_json::from_str(n).unwrap_or(Value::Null)
        }
        3 => Value::String(rng.pick(TEMP_IDS).to_string()),
        4 => Value::Array(vec![v.clone()]),
        5 => {
            let mut m = serde_json::Map::new();
            m.insert("@type".to_string(), v.clone());
            Value::Object(m)
        }
        6 => Value::String(String::new()),
        _ => Value::Array(vec![]),
    }
}

fn mutate_csv(rng: &mut Rng, text: &str) -> (String, String) {
    let mut lines: Vec<Vec<String>> = text.lines().map(|l| l.split(',').map(|s| s.to_string()).collect()).collect();
    if lines.is_empty() {
        return (text.to_string(), "empty_csv".to_string());
    }
    let li = rng.below(lines.len());
    let desc;
    match rng.below(7) {
        0 => {
            if !lines[li].is_empty() {
                let c = rng.below(lines[li].len());
                lines[li].remove(c);
            }
            desc = format!("drop_cell@{}", li);
        }
        1 => {
            if lines[li].len() >= 2 {
                let a = rng.below(lines[li].len());
                let b = rng.below(lines[li].len());
                lines[li].swap(a, b);
            }
            desc = format!("swap_cells@{}", li);
        }
        2 => {
            if !lines[li].is_empty() {
                let c = rng.below(lines[li].len());
                lines[li][c] = format!("{};{}", lines[li][c], rng.pick(&["x", "", "TextSelector", "!A3000000", "-5", "99999999999999999999"]));
            }
            desc = format!("extend_list@{}", li);
        }
        3 => {
            if !lines[li].is_empty() {
                let mut c = rng.below(lines[li].len());
                // half of the time the selector-type column, with every kind name the library itself can print
                // (a name it prints must be safe to read back), alone or as the first / a later member of a list
                let typecol = lines[0].iter().position(|h| h == "SelectorType");
                if let (Some(tc), true) = (typecol, li > 0 && rng.chance(1, 2)) {
                    if tc < lines[li].len() {
                        c = tc;
                    }
                    let kinds: Vec<String> = [
                        SelectorKind::ResourceSelector,
                        SelectorKind::AnnotationSelector,
                        SelectorKind::TextSelector,
                        SelectorKind::DataSetSelector,
                        SelectorKind::DataKeySelector,
                        SelectorKind::AnnotationDataSelector,
                        SelectorKind::MultiSelector,
                        SelectorKind::CompositeSelector,
                        SelectorKind::DirectionalSelector,
                        SelectorKind::InternalRangedSelector,
                    ]
                    .iter()
                    .map(|k| k.as_str().to_string())
                    .collect();
                    let k = rng.pick(&kinds).clone();
                    let k = if rng.chance(1, 4) { k.to_lowercase() } else { k };
                    lines[li][c] = match rng.below(3) {
                        0 => k,
                        1 => format!("{};{}", k, rng.pick(&kinds)),
                        _ => format!("{};{}", rng.pick(&kinds), k),
                    };
                } else {
                    lines[li][c] = rng
                        .pick(&["", "TextSelector", "DataKeySelector", "AnnotationDataSelector", "MultiSelector", "CompositeSelector;TextSelector", "DirectionalSelector", "!A3000000", "-0", "-99999999999999999999", "18446744073709551616", "x;y;z", "AnnotationStore", "TextResource", "AnnotationDataSet", "DataKey"])
                        .to_string();
                }
            }
            desc = format!("replace_cell@{}", li);
        }
        4 => {
            let l = lines[li].clone();
            lines.push(l);
            desc = format!("duplicate_row@{}", li);
        }
        5 => {
            lines.remove(li);
            desc = format!("delete_row@{}", li);
        }
        _ => {
            if lines.len() >= 2 {
                let a = rng.below(lines.len());
                lines.swap(li, a);
            }
            desc = format!("swap_rows@{}", li);
        }
    }
    let out: Vec<String> = lines.iter().map(|l| l.join(",")).collect();
    (out.join("\n") + "\n", desc)
}

const STR_INPUTS: &[&str] = &[
    "", "0", "-0", "1", "-1", "+1", "--1", "18446744073709551615", "18446744073709551616", "-9223372036854775808",
    "-9223372036854775809", "9223372036854775807", "1.5", "1e3", " 1", "1 ", "０", "١٢", "-", "abc", "\u{0}",
    "json", "JSON", "Json-compact", "csv", "cbor", "CBOR", "TextSelector", "textselector", "text", "data", "İ", "ǅ",
    "annotationstore", "AnnotationStore", "KEYS", "ẞ", "datakey", "resource", "substore", "config", "textselectionset",
    "multi", "composite", "directional", "internalrangedselector", "InternalRangedSelector",
];

/// slots per base serialisation in the enumerated quarter: every truncation point, then every single-bit flip
const ENUM_SLOTS: u64 = 4096;

/// Every fourth case is taken from the enumeration: for one base serialisation after the other,
/// the main file truncated at every length 0..len, then with every single bit flipped (as far as
/// the slots reach: files up to 455 bytes are covered completely, longer ones all truncations and
/// the leading bit flips). Slots beyond the file are skipped.
fn gen_enumerated(seed: u64, e: u64) -> Option<Case> {
    let base = 1_000_000 + e / ENUM_SLOTS;
    let k = (e % ENUM_SLOTS) as usize;
    let mut krng = Rng::new(rng::run_seed(seed, "C19-enum-kind", base));
    let kind = *krng.pick(&[Kind::Cbor, Kind::Cbor, Kind::JsonStore, Kind::JsonDataset, Kind::CsvStore, Kind::JsonAnnotations, Kind::JsonStoreMerge]);
    let (mut files, main, base_store_json) = base_serialisation(seed, base, kind)?;
    let data = files.get_mut(&main)?;
    let len = data.len();
    let fault = if k <= len {
        data.truncate(k);
        format!("bytes:{}:enum_truncate@{}", main, k)
    } else {
        let f = k - len - 1;
        let (at, bit) = (f / 8, (f % 8) as u8);
        if at >= len {
            return None;
        }
        data[at] ^= 1 << bit;
        format!("bytes:{}:enum_bitflip@{}.{}", main, at, bit)
    };
    Some(Case { kind, files: files.iter().map(|(k, v)| (k.clone(), hex(v))).collect(), main, base_store_json, fault })
}

/// Deterministically generates case `index`.
pub fn gen_case(seed: u64, index: u64) -> Option<Case> {
    if index % 4 == 3 {
        return gen_enumerated(seed, index / 4);
    }
    let index = index - index / 4; // the sampled cases keep a dense numbering of their own
    let base = index / MUTATIONS_PER_BASE;
    let mi = index % MUTATIONS_PER_BASE;
    let mut krng = Rng::new(rng::run_seed(seed, "C19-kind", base));
    let kind = *krng.pick(&[
        Kind::JsonStore,
        Kind::JsonStore,
        Kind::JsonStoreInclude,
        Kind::JsonStoreSubstores,
        Kind::JsonStoreMerge,
        Kind::JsonDataset,
        Kind::JsonAnnotations,
        Kind::JsonAnnotation,
        Kind::CsvStore,
        Kind::CsvStore,
        Kind::Cbor,
        Kind::Cbor,
        Kind::Cbor,
        Kind::StrCursor,
    ]);
    let mut rng = Rng::new(rng::run_seed(seed, "C19-fault", index));
    if kind == Kind::StrCursor {
        let k = *rng.pick(&[Kind::StrCursor, Kind::StrType, Kind::StrDataFormat, Kind::StrSelectorKind]);
        let mut s = rng.pick(STR_INPUTS).to_string();
        if rng.chance(1, 3) {
            let mut b = s.clone().into_bytes();
            let d = mutate_bytes(&mut rng, &mut b);
            s = String::from_utf8_lossy(&b).to_string();
            return Some(Case { kind: k, files: BTreeMap::new(), main: s, base_store_json: None, fault: d });
        }
        return Some(Case { kind: k, files: BTreeMap::new(), main: s, base_store_json: None, fault: "literal".to_string() });
    }
    let (mut files, main, base_store_json) = base_serialisation(seed, base, kind)?;
    let fault;
    if kind == Kind::JsonAnnotation {
        // the serialisation is the literal string
        let mut text = main.clone();
        if mi == 0 {
            fault = "none".to_string();
        } else if rng.chance(1, 2) {
            let mut v: serde_json::Value = serde_json::from_str(&text).ok()?;
            fault = mutate_json_document(&mut rng, &mut v, &[]);
            text = serde_json::to_string(&v).ok()?;
        } else if rng.chance(1, 2) {
            let (t, d) = mutate_text_tokens(&mut rng, &text);
            text = t;
            fault = d;
        } else {
            let mut b = text.clone().into_bytes();
            fault = mutate_bytes(&mut rng, &mut b);
            text = String::from_utf8_lossy(&b).to_string();
        }
        return Some(Case { kind, files: BTreeMap::new(), main: text, base_store_json: None, fault });
    }
    // which file is hit: mostly the main one, sometimes a stand-off member
    let names: Vec<String> = files.keys().cloned().collect();
    let target = if names.len() > 1 && rng.chance(1, 3) { rng.pick(&names).clone() } else { main.clone() };
    if mi == 0 {
        fault = "none".to_string();
    } else if names.len() > 1 && rng.chance(1, 20) {
        // missing or stale include
        let victim = rng.pick(&names).clone();
        if victim != main {
            if rng.chance(1, 2) {
                files.remove(&victim);
                fault = format!("missing_file:{}", victim);
            } else {
                let other = rng.pick(&names).clone();
                let content = files.get(&other).cloned().unwrap_or_default();
                files.insert(victim.clone(), content);
                fault = format!("stale_file:{}<-{}", victim, other);
            }
        } else {
            fault = "none".to_string();
        }
    } else {
        let data = files.get_mut(&target)?;
        let is_json = target.ends_with(".json");
        let is_csv = target.ends_with(".csv");
        let choice = rng.below(10);
        if is_json && choice < 4 {
            let text = String::from_utf8_lossy(data).to_string();
            match serde_json::from_str::<serde_json::Value>(&text) {
                Ok(mut v) => {
                    // @include targets of the same family as the file that is hit (itself included: self-inclusion)
                    let family = |n: &str| -> u8 {
                        if n.ends_with(".store.stam.json") {
                            0
                        } else if n.ends_with(".annotationset.stam.json") {
                            1
                        } else {
                            2
                        }
                    };
                    let fam = family(&target);
                    let includes: Vec<String> = names.iter().filter(|n| n.ends_with(".json") && family(n) == fam).cloned().collect();
                    let d = mutate_json_document(&mut rng, &mut v, &includes);
                    *data = serde_json::to_string_pretty(&v).ok()?.into_bytes();
                    fault = format!("json:{}:{}", target, d);
                }
                Err(_) => {
                    fault = format!("bytes:{}:{}", target, mutate_bytes(&mut rng, data));
                }
            }
        } else if (is_json || is_csv) && choice < 7 {
            let text = String::from_utf8_lossy(data).to_string();
            let (t, d) = if is_csv && rng.chance(1, 2) { mutate_csv(&mut rng, &text) } else { mutate_text_tokens(&mut rng, &text) };
            *data = t.into_bytes();
            fault = format!("text:{}:{}", target, d);
        } else {
            fault = format!("bytes:{}:{}", target, mutate_bytes(&mut rng, data));
        }
    }
    Some(Case {
        kind,
        files: files.iter().map(|(k, v)| (k.clone(), hex(v))).collect(),
        main,
        base_store_json,
        fault,
    })
}

#[derive(Clone, Debug, PartialEq)]
pub enum CaseOutcome {
    /// the loader returned an error
    Refused,
    /// the loader returned a store that passed the self-consistency suite
    Loaded,
    /// violation: (signature, detail)
    Violation(String, String),
}

/// Runs one case in the current process (the caller supervises the process).
pub fn run_case(case: &Case) -> CaseOutcome {
    let fs = SimFs::new();
    for (k, v) in case.files.iter() {
        fs.put(k, &unhex(v));
    }
    fs.install();
    // a loader that spins on I/O trips this deterministically
    let total: usize = case.files.values().map(|v| v.len() / 2).sum();
    fs.set_read_budget(total * 64 + 100_000);
    // per-case allocation budget: 256 MiB above what is live now (normal loads use < 1 MiB)
    let live = crate::alloc_cap::LIVE.load(Ordering::Relaxed);
    crate::alloc_cap::CAP.store(live + (256 << 20), Ordering::Relaxed);
    let kind = case.kind;
    let result: Result<Result<Option<AnnotationStore>, String>, String> = catch(|| match kind {
        Kind::JsonStore => {
            let content = fs.get(&case.main).unwrap_or_default();
            let text = String::from_utf8_lossy(&content).to_string();
            AnnotationStore::from_str(&text, Config::new()).map(Some).map_err(|e| format!("{}", e))
        }
        Kind::JsonStoreInclude | Kind::JsonStoreSubstores | Kind::CsvStore | Kind::Cbor => AnnotationStore::from_file(&case.main, Config::new()).map(Some).map_err(|e| format!("{}", e)),
        Kind::JsonDataset => {
            let mut store = AnnotationStore::new(Config::new());
            store
                .add_dataset(AnnotationDataSetBuilder::new().with_filename(case.main.clone()))
                .map(|_| Some(store))
                .map_err(|e| format!("{}", e))
        }
        Kind::JsonAnnotations => {
            let base = case.base_store_json.clone().unwrap_or_default();
            let mut store = AnnotationStore::from_str(&base, Config::new()).map_err(|e| format!("base store: {}", e))?;
            match store.annotate_from_file(&case.main) {
                Ok(_) => Ok(Some(store)),
                Err(e) => Err(format!("{}", e)),
            }
        }
        Kind::JsonStoreMerge => {
            let base = case.base_store_json.clone().unwrap_or_default();
            let store = AnnotationStore::from_str(&base, Config::new()).map_err(|e| format!("base store: {}", e))?;
            store.with_file(&case.main).map(Some).map_err(|e| format!("{}", e))
        }
        Kind::JsonAnnotation => AnnotationBuilder::from_json_str(&case.main).map(|_| None).map_err(|e| format!("{}", e)),
        Kind::StrCursor => Cursor::try_from(case.main.as_str()).map(|_| None).map_err(|e| format!("{}", e)),
        Kind::StrType => Type::try_from(case.main.as_str()).map(|_| None).map_err(|e| format!("{}", e)),
        Kind::StrDataFormat => DataFormat::try_from(case.main.as_str()).map(|_| None).map_err(|e| format!("{}", e)),
        Kind::StrSelectorKind => SelectorKind::try_from(case.main.as_str()).map(|_| None).map_err(|e| format!("{}", e)),
    });
    let out = match result {
        Err(p) => CaseOutcome::Violation(format!("C19|panic|load:{}|{}", kind.name(), short_panic(&p)), p),
        Ok(Err(e)) => {
            if e.contains("read budget exceeded") {
                CaseOutcome::Violation(format!("C19|budget|load:{}|io_steps", kind.name()), e)
            } else {
                CaseOutcome::Refused
            }
        }
        Ok(Ok(None)) => CaseOutcome::Loaded,
        Ok(Ok(Some(store))) => {
            // a store that loads "successfully" must be usable: the model-free C01-C03 suite
            let model = Model::new();
            let mut c = Checker::new(&store, &model);
            c.limit = 3;
            c.check_no_dangling(true);
            if c.out.is_empty() {
                c.check_dump();
            }
            if c.out.is_empty() {
                // drain the public iterators
                let r = catch(|| {
                    let mut n = 0usize;
                    for res in store.resources() {
                        n += res.textselections().count();
                        n += res.textselections().rev().count();
                        n += res.annotations().count();
                        n += res.segmentation().count();
                    }
                    for ds in store.datasets() {
                        for k in ds.keys() {
                            n += k.data().count() + k.annotations().count();
                        }
                        for d in ds.data() {
                            n += d.annotations().count();
                        }
                    }
                    for a in store.annotations() {
                        n += a.text().count();
                        let _ = a.as_ref().target().offset(&store);
                    }
                    n
                });
                if let Err(p) = r {
                    CaseOutcome::Violation(format!("C19|panic|use_after_load:{}|{}", kind.name(), short_panic(&p)), p)
                } else {
                    CaseOutcome::Loaded
                }
            } else {
                let v = &c.out[0];
                let sig = if kind == Kind::Cbor {
                    // one listed finding: CBOR stores its indices and they are not validated on load
                    "C19|inconsistent|loaded_store:cbor|unvalidated_indices".to_string()
                } else if v.class == "panic" {
                    format!("C19|panic|use_after_load:{}|{}", kind.name(), v.key)
                } else {
                    format!("C19|inconsistent|loaded_store:{}|{}", kind.name(), v.key)
                };
                CaseOutcome::Violation(sig, format!("{} [{}] {}: {}", v.owner, v.class, v.key, v.detail))
            }
        }
    };
    crate::alloc_cap::CAP.store(12 << 30, Ordering::Relaxed);
    SimFs::uninstall();
    out
}

fn short_panic(p: &str) -> String {
    let n = normalise_panic(p);
    let mut s: String = n.chars().map(|c| if c.is_ascii_alphanumeric() || c == ' ' { c } else { '_' }).collect();
    trunc(&mut s, 48);
    s
}

/// Worker process: runs cases start, start+stride, ... < end; announces each before executing it.
pub fn worker(seed: u64, start: u64, end: u64, stride: u64) -> i32 {
    let stdout = std::io::stdout();
    let mut i = start;
    while i < end {
        {
            let mut o = stdout.lock();
            let _ = writeln!(o, "S {}", i);
            let _ = o.flush();
        }
        let line = match gen_case(seed, i) {
            None => format!("D {} skip", i),
            Some(case) => match run_case(&case) {
                CaseOutcome::Refused => format!("D {} refused {} {}", i, case.kind.name(), fault_class(&case.fault)),
                CaseOutcome::Loaded => format!("D {} loaded {} {}", i, case.kind.name(), fault_class(&case.fault)),
                CaseOutcome::Violation(sig, detail) => format!("D {} violation {} {} {}\t{}", i, case.kind.name(), fault_class(&case.fault), sig, detail.replace('\n', " ")),
            },
        };
        {
            let mut o = stdout.lock();
            let _ = writeln!(o, "{}", line);
            let _ = o.flush();
        }
        i += stride;
    }
    0
}

fn fault_class(f: &str) -> String {
    // e.g. "json:/in/x.json:graft_subtree:..." -> "json.graft_subtree"; "bytes:/in/x:truncate@5" -> "bytes.truncate"
    let parts: Vec<&str> = f.split(':').collect();
    let first = parts.first().copied().unwrap_or("none");
    if (first == "json" || first == "text" || first == "bytes") && parts.len() >= 3 {
        let sub = parts[2].split('@').next().unwrap_or("");
        format!("{}.{}", first, sub)
    } else {
        first.split('@').next().unwrap_or("none").to_string()
    }
}

struct Tally {
    cases: u64,
    refused: u64,
    loaded: u64,
    skipped: u64,
    by_kind: BTreeMap<String, u64>,
    by_fault: BTreeMap<String, u64>,
    distinct_nontrivial: BTreeSet<(String, String, String)>,
    violations: BTreeMap<String, (u64, u64, String)>, // sig -> (first index, count, detail)
}

pub fn check(tier: &str) -> i32 {
    let start = Instant::now();
    let seed = verif_seed();
    let total: u64 = std::env::var("VERIF_RUNS").ok().and_then(|s| s.parse().ok()).unwrap_or(if tier == "thorough" { 6_000_000 } else { 300_000 });
    let nworkers = workers() as u64;
    println!("stamsim check property=C19 tier={} VERIF_SEED={} cases={} workers={}", tier, seed, total, nworkers);
    let exe = std::env::current_exe().expect("current exe");
    let tally = std::sync::Mutex::new(Tally {
        cases: 0,
        refused: 0,
        loaded: 0,
        skipped: 0,
        by_kind: BTreeMap::new(),
        by_fault: BTreeMap::new(),
        distinct_nontrivial: BTreeSet::new(),
        violations: BTreeMap::new(),
    });
    std::thread::scope(|scope| {
        for w in 0..nworkers {
            let exe = exe.clone();
            let tally = &tally;
            scope.spawn(move || {
                let mut next = w;
                while next < total {
                    // (re)spawn a worker process from `next`
                    let mut child = Command::new(&exe)
                        .arg("c19worker")
                        .arg(seed.to_string())
                        .arg(next.to_string())
                        .arg(total.to_string())
                        .arg(nworkers.to_string())
                        .env("RUST_BACKTRACE", "0")
                        .stdin(Stdio::null())
                        .stdout(Stdio::piped())
                        .stderr(Stdio::null())
                        .spawn()
                        .expect("spawn worker process");
                    let stdout = child.stdout.take().expect("child stdout");
                    // reader thread with a channel so that the supervisor can time out
                    let (tx, rx) = std::sync::mpsc::channel::<String>();
                    let reader = std::thread::spawn(move || {
                        let r = BufReader::new(stdout);
                        for line in r.lines() {
                            match line {
                                Ok(l) => {
                                    if tx.send(l).is_err() {
                                        break;
                                    }
                                }
                                Err(_) => break,
                            }
                        }
                    });
                    let mut announced: Option<u64> = None;
                    let mut finished_all = false;
                    loop {
                        match rx.recv_timeout(Duration::from_secs(15)) {
                            Ok(line) => {
                                if let Some(rest) = line.strip_prefix("S ") {
                                    announced = rest.trim().parse().ok();
                                } else if let Some(rest) = line.strip_prefix("D ") {
                                    let mut parts = rest.splitn(2, ' ');
                                    let idx: u64 = parts.next().and_then(|s| s.parse().ok()).unwrap_or(0);
                                    let body = parts.next().unwrap_or("");
                                    record(tally, idx, body);
                                    announced = None;
                                    next = idx + nworkers;
                                }
                            }
                            Err(std::sync::mpsc::RecvTimeoutError::Timeout) => {
                                // hang: no progress for 15 s (normal: < 10 ms)
                                let _ = child.kill();
                                let _ = child.wait();
                                if let Some(idx) = announced {
                                    record_death(tally, seed, idx, "hang", "no progress for 15 s");
                                    next = idx + nworkers;
                                }
                                break;
                            }
                            Err(std::sync::mpsc::RecvTimeoutError::Disconnected) => {
                                let status = child.wait().ok();
                                if let Some(idx) = announced {
                                    let how = match status {
                                        Some(s) => format!("{}", s),
                                        None => "unknown".to_string(),
                                    };
                                    record_death(tally, seed, idx, "abort", &how);
                                    next = idx + nworkers;
                                } else {
                                    finished_all = true;
                                }
                                break;
                            }
                        }
                    }
                    let _ = reader.join();
                    if finished_all {
                        break;
                    }
                }
            });
        }
    });
    let tally = tally.into_inner().unwrap();
    // report
    let known = load_known_findings();
    let mut new_violations = 0;
    let dir = format!("{}/replays", root());
    let _ = std::fs::create_dir_all(&dir);
    let mut known_hit = Vec::new();
    for (sig, (idx, count, detail)) in tally.violations.iter() {
        let case = gen_case(seed, *idx);
        let safe: String = sig.chars().map(|c| if c.is_ascii_alphanumeric() { c } else { '_' }).take(90).collect();
        let path = format!("{}/C19-{}-{}-{}.json", dir, seed, idx, safe);
        if let Some(case) = case {
            let rf = C19Replay {
                property: "C19".to_string(),
                signature: sig.clone(),
                seed,
                case_index: *idx,
                detail: detail.clone(),
                case,
            };
            let _ = std::fs::write(&path, serde_json::to_string_pretty(&rf).unwrap());
        }
        if let Some(k) = known.iter().find(|k| k.status == "known" && k.property == "C19" && &k.signature == sig) {
            println!("KNOWN-FINDING: property=C19 {} [{}] ({} of {} cases; replay={})", k.what, sig, count, tally.cases, path);
            known_hit.push(sig.clone());
        } else {
            new_violations += 1;
            println!("VIOLATION property=C19 replay={}", path);
            println!("  signature: {}", sig);
            let mut d = detail.clone();
            trunc(&mut d, 400);
            println!("  case={} hits={} detail: {}", idx, count, d);
        }
    }
    let wall = start.elapsed().as_secs_f64();
    write_evidence(tier, seed, total, &tally, new_violations, wall, &known_hit);
    println!(
        "cases={} refused={} loaded={} skipped={} distinct_nontrivial={} wall={:.1}s cases/hour={:.0}",
        tally.cases,
        tally.refused,
        tally.loaded,
        tally.skipped,
        tally.distinct_nontrivial.len(),
        wall,
        tally.cases as f64 / wall * 3600.0
    );
    if new_violations > 0 {
        1
    } else {
        println!("OK property=C19 held on everything explored");
        0
    }
}

fn record(tally: &std::sync::Mutex<Tally>, idx: u64, body: &str) {
    let mut t = tally.lock().unwrap();
    t.cases += 1;
    let mut parts = body.splitn(4, ' ');
    let class = parts.next().unwrap_or("");
    let kind = parts.next().unwrap_or("").to_string();
    let fault = parts.next().unwrap_or("").to_string();
    let rest = parts.next().unwrap_or("");
    match class {
        "skip" => {
            t.skipped += 1;
            return;
        }
        "refused" => t.refused += 1,
        "loaded" => t.loaded += 1,
        "violation" => {
            let mut sp = rest.splitn(2, '\t');
            let sig = sp.next().unwrap_or("").to_string();
            let detail = sp.next().unwrap_or("").to_string();
            let e = t.violations.entry(sig).or_insert((idx, 0, detail.clone()));
            e.1 += 1;
            if idx < e.0 {
                e.0 = idx;
                e.2 = detail;
            }
        }
        _ => {}
    }
    *t.by_kind.entry(kind.clone()).or_insert(0) += 1;
    *t.by_fault.entry(fault.clone()).or_insert(0) += 1;
    if fault != "none" {
        t.distinct_nontrivial.insert((kind, fault, class.to_string()));
    }
}

fn record_death(tally: &std::sync::Mutex<Tally>, seed: u64, idx: u64, class: &str, how: &str) {
    let (kind, fault) = match gen_case_meta(seed, idx) {
        Some(x) => x,
        None => ("unknown".to_string(), "unknown".to_string()),
    };
    let mut t = tally.lock().unwrap();
    t.cases += 1;
    // a process death caused by a huge temporary id is one listed finding; everything else keeps its own signature
    let cause = if is_large_tempid_fault(&fault) { "tempid_padding".to_string() } else { fault_class(&fault) };
    let sig = if cause == "tempid_padding" {
        // one listed finding whatever the container format
        format!("C19|{}|load|tempid_padding", class)
    } else {
        format!("C19|{}|load:{}|{}", class, kind, cause)
    };
    let detail = format!("worker process ended while loading case {} ({}); fault {}", idx, how, fault);
    let e = t.violations.entry(sig).or_insert((idx, 0, detail.clone()));
    e.1 += 1;
    if idx < e.0 {
        e.0 = idx;
        e.2 = detail;
    }
    *t.by_kind.entry(kind).or_insert(0) += 1;
}

fn is_large_tempid_fault(fault: &str) -> bool {
    // e.g. token@661:"!D2"->"!A4294967295"
    if let Some(pos) = fault.rfind("->\"!") {
        let rest = &fault[pos + 4..];
        let digits: String = rest.chars().skip(1).take_while(|c| c.is_ascii_digit()).collect();
        return digits.len() >= 6;
    }
    false
}

fn gen_case_meta(seed: u64, idx: u64) -> Option<(String, String)> {
    // generating a case is safe (no loading happens)
    let c = gen_case(seed, idx)?;
    // does the corrupted input contain a temporary id with a large number? (listed finding: padding)
    let mut large_tempid = false;
    for v in c.files.values().map(|v| unhex(v)).chain(std::iter::once(c.main.clone().into_bytes())) {
        let mut i = 0;
        while i + 2 < v.len() {
            if v[i] == b'!' && v[i + 1].is_ascii_uppercase() {
                let digits = v[i + 2..].iter().take_while(|b| b.is_ascii_digit()).count();
                if digits >= 6 {
                    large_tempid = true;
                }
            }
            i += 1;
        }
    }
    let fault = if large_tempid { format!("{}->\"!X000000 (large temporary id in input)", c.fault) } else { c.fault };
    Some((c.kind.name().to_string(), fault))
}

fn write_evidence(tier: &str, seed: u64, total: u64, t: &Tally, violations: usize, wall: f64, known_hit: &[String]) {
    use serde_json::json;
    let mut samples = Vec::new();
    for i in [1u64, 70, 140] {
        if let Some(c) = gen_case(seed, i) {
            let mut files: BTreeMap<String, String> = BTreeMap::new();
            for (k, v) in c.files.iter() {
                let b = unhex(v);
                let mut s = String::from_utf8_lossy(&b).to_string();
                trunc(&mut s, 300);
                files.insert(k.clone(), s);
            }
            let mut main = c.main.clone();
            trunc(&mut main, 300);
            samples.push(json!({"case": i, "kind": c.kind.name(), "fault": c.fault, "main": main, "files_excerpt": files}));
        }
    }
    let ev = json!({
        "property_id": "C19",
        "tier": tier,
        "seed": seed,
        "level": "fault_enumeration",
        "coverage": {
            "evaluations": t.cases,
            "distinct_nontrivial": t.distinct_nontrivial.len(),
            "rule": "one case = one valid serialisation produced from a seeded history (64 cases share a base store) with one injected fault, loaded in a supervised worker process; non-trivial = a fault was actually injected; distinct = distinct (input kind, fault kind, outcome class) triples",
            "samples": samples,
            "exhaustive": false,
            "cases_planned": total,
            "refused_with_error": t.refused,
            "loaded_and_self_consistent": t.loaded,
            "skipped_no_base": t.skipped,
            "by_input_kind": t.by_kind,
            "faults_fired_by_kind": t.by_fault,
            "cases_per_hour": if wall > 0.0 { (t.cases as f64 / wall * 3600.0).round() } else { 0.0 },
            "simulated_time": "n/a: no clock on the load paths; termination is bounded by a deterministic SimFs read budget and a 15 s watchdog in the supervising parent",
            "supervision": "worker processes; per-case allocation budget 256 MiB (counting global allocator); abort, signal and hang detected by the parent and attributed to the announced case",
            "known_findings_seen": known_hit,
            "components": crate::evidence::components(),
        },
        "assumptions": [
            "serde_json, minicbor, csv are trusted to terminate on any input",
            "the watchdog (15 s against a normal < 10 ms) is the one place a real clock is read"
        ],
        "wall_s": wall,
        "violations": violations,
    });
    let dir = format!("{}/evidence", root());
    let _ = std::fs::create_dir_all(&dir);
    std::fs::write(format!("{}/C19.json", dir), serde_json::to_string_pretty(&ev).unwrap()).expect("write evidence");
}

/// Replays a C19 case in a supervised child process
pub fn replay(path: &str) -> i32 {
    let s = match std::fs::read_to_string(path) {
        Ok(s) => s,
        Err(e) => {
            println!("HARNESS-ERROR: cannot read {}: {}", path, e);
            return 2;
        }
    };
    let rf: C19Replay = match serde_json::from_str(&s) {
        Ok(r) => r,
        Err(e) => {
            println!("HARNESS-ERROR: cannot parse {}: {}", path, e);
            return 2;
        }
    };
    let exe = std::env::current_exe().expect("current exe");
    let mut child = Command::new(&exe).arg("c19case").arg(path).env("RUST_BACKTRACE", "0").stdin(Stdio::null()).stdout(Stdio::piped()).stderr(Stdio::null()).spawn().expect("spawn");
    let started = Instant::now();
    loop {
        match child.try_wait() {
            Ok(Some(status)) => {
                let mut out = String::new();
                if let Some(mut o) = child.stdout.take() {
                    use std::io::Read;
                    let _ = o.read_to_string(&mut out);
                }
                print!("{}", out);
                if out.contains(&rf.signature) {
                    println!("VIOLATION property=C19 replay={}", path);
                    return 1;
                }
                if !status.success() && (rf.signature.contains("|abort|") || rf.signature.contains("|hang|")) {
                    println!("worker died: {}", status);
                    println!("VIOLATION property=C19 replay={}", path);
                    return 1;
                }
                if out.contains("violation") {
                    println!("HARNESS-ERROR: replay diverged (expected {})", rf.signature);
                    return 2;
                }
                println!("replay of {}: no violation (does not reproduce on this tree)", path);
                return 0;
            }
            Ok(None) => {
                if started.elapsed() > Duration::from_secs(15) {
                    let _ = child.kill();
                    if rf.signature.contains("|hang|") {
                        println!("VIOLATION property=C19 replay={}", path);
                        return 1;
                    }
                    println!("HARNESS-ERROR: replay hung");
                    return 2;
                }
                std::thread::sleep(Duration::from_millis(20));
            }
            Err(_) => return 2,
        }
    }
}

pub fn run_case_file(path: &str) -> i32 {
    let s = std::fs::read_to_string(path).expect("read");
    let rf: C19Replay = serde_json::from_str(&s).expect("parse");
    match run_case(&rf.case) {
        CaseOutcome::Refused => println!("refused"),
        CaseOutcome::Loaded => println!("loaded"),
        CaseOutcome::Violation(sig, detail) => println!("violation {}\t{}", sig, detail),
    }
    0
}

#[allow(dead_code)]
fn _unused(_: Format) {}
