//! Workload generator: draws the next operation from the PRNG given the current model state.
//! Swarm style: each run draws its own configuration (sizes, alphabets, operation mix).

use crate::model::*;
use crate::ops::*;
use crate::rng::Rng;
use serde::{Deserialize, Serialize};

fn yes() -> bool {
    true
}

#[derive(Clone, Debug, Serialize, Deserialize)]
pub struct GenCfg {
    /// selection lengths to aim at now and then (thresholds such as the 40 codepoints of automatic text validation)
    #[serde(default)]
    pub pref_lens: Vec<usize>,
    pub n_ops: usize,
    pub max_text_len: usize,
    /// which alphabets are enabled: ascii, 2-byte, 3-byte, 4-byte, combining, whitespace
    pub alphabets: [bool; 6],
    pub n_res_ids: usize,
    pub n_set_ids: usize,
    pub n_key_ids: usize,
    pub n_data_ids: usize,
    pub n_ann_ids: usize,
    /// percent of requests made invalid on purpose
    pub pct_invalid: usize,
    /// percent of references handed over by handle instead of id
    pub pct_by_handle: usize,
    /// percent of references drawn from all items ever created (incl. removed) instead of live ones
    pub pct_any_ref: usize,
    /// percent of annotations / data that get a public id
    pub pct_ann_id: usize,
    pub pct_data_id: usize,
    /// weights: add_resource, add_dataset, insert_data, annotate, annotate_batch, remove_annotation,
    /// remove_data, remove_key, remove_resource, remove_dataset, protect_text, strip_ann_ids,
    /// strip_data_ids, reindex, restart
    pub w: [usize; 15],
    /// selector kind weights: text, resource, dataset, key, data, annotation, annotation+offset, multi, composite, directional
    pub wsel: [usize; 10],
    pub restart_formats: Vec<Format>,
    pub allow_validation_set: bool,
    /// geometry bias for related-text profiles: percent of text selectors drawn near existing selections
    pub pct_geometry: usize,
    pub allow_odd_ids: bool,
    /// percent of failing requests that would leave residue (listed finding) that are re-drawn
    #[serde(default)]
    pub pct_redraw_residue: usize,
    /// selector style "the same annotation named twice" (off for C08: a constraint's own answer then has duplicates)
    #[serde(default = "yes")]
    pub same_annotation_twice: bool,
    /// share (in percent) of characters drawn from digits and '.', so that selections read like numbers
    #[serde(default)]
    pub pct_digits: usize,
}

pub const W_ADD_RESOURCE: usize = 0;
pub const W_ADD_DATASET: usize = 1;
pub const W_INSERT_DATA: usize = 2;
pub const W_ANNOTATE: usize = 3;
pub const W_ANNOTATE_BATCH: usize = 4;
pub const W_REMOVE_ANNOTATION: usize = 5;
pub const W_REMOVE_DATA: usize = 6;
pub const W_REMOVE_KEY: usize = 7;
pub const W_REMOVE_RESOURCE: usize = 8;
pub const W_REMOVE_DATASET: usize = 9;
pub const W_PROTECT: usize = 10;
pub const W_STRIP_ANN: usize = 11;
pub const W_STRIP_DATA: usize = 12;
pub const W_REINDEX: usize = 13;
pub const W_RESTART: usize = 14;

impl GenCfg {
    /// the base profile; per-property profiles tweak it
    pub fn draw(rng: &mut Rng) -> GenCfg {
        let mut alphabets = [true, false, false, false, false, true];
        for i in 1..5 {
            alphabets[i] = rng.chance(1, 2);
        }
        if rng.chance(1, 10) {
            alphabets[0] = false;
            alphabets[1] = true;
        }
        GenCfg {
            n_ops: rng.range(8, 50),
            max_text_len: *rng.pick(&[0, 3, 8, 12, 20, 40]),
            alphabets,
            n_res_ids: rng.range(1, 4),
            n_set_ids: rng.range(1, 3),
            n_key_ids: rng.range(1, 4),
            n_data_ids: rng.range(2, 8),
            n_ann_ids: rng.range(4, 16),
            pct_invalid: *rng.pick(&[0, 5, 10, 20]),
            pct_by_handle: *rng.pick(&[0, 20, 50]),
            pct_any_ref: *rng.pick(&[0, 5, 15]),
            pct_ann_id: *rng.pick(&[0, 50, 80, 100]),
            pct_data_id: *rng.pick(&[0, 30, 70]),
            w: [
                6,                          // add_resource
                3,                          // add_dataset
                6,                          // insert_data
                40,                         // annotate
                0,                          // annotate_batch
                *rng.pick(&[0, 4, 8]),      // remove_annotation
                *rng.pick(&[0, 3, 6]),      // remove_data
                *rng.pick(&[0, 2, 4]),      // remove_key
                *rng.pick(&[0, 1, 3]),      // remove_resource
                *rng.pick(&[0, 1, 3]),      // remove_dataset
                *rng.pick(&[0, 0, 2]),      // protect
                0,                          // strip ann ids
                0,                          // strip data ids
                0,                          // reindex
                0,                          // restart
            ],
            wsel: [
                30,
                *rng.pick(&[0, 4, 8]),
                *rng.pick(&[0, 3, 6]),
                *rng.pick(&[0, 3, 6]),
                *rng.pick(&[0, 3, 6]),
                *rng.pick(&[0, 6, 12]),
                *rng.pick(&[0, 6, 12]),
                *rng.pick(&[0, 4, 8]),
                *rng.pick(&[0, 4, 8]),
                *rng.pick(&[0, 4, 8]),
            ],
            restart_formats: Vec::new(),
            allow_validation_set: false,
            pct_geometry: *rng.pick(&[0, 30, 60]),
            pref_lens: Vec::new(),
            allow_odd_ids: false,
            pct_redraw_residue: 0,
            same_annotation_twice: true,
            pct_digits: 0,
        }
    }
}

const ASCII: &[char] = &['a', 'b', 'c', 'd', 'e', 'X', 'Y', 'z', '0', '1', '.', ',', '"', '\\', '/'];
const TWO: &[char] = &['é', 'ß', 'ñ', 'İ', 'ǅ', 'Ω'];
const THREE: &[char] = &['€', '語', 'ẞ', 'ﬁ', '‱'];
const FOUR: &[char] = &['𝄞', '😀', '𐐷'];
const COMBINING: &[char] = &['\u{0301}', '\u{0308}', '\u{200d}'];
const WHITESPACE: &[char] = &[' ', ' ', '\n', '\t'];

pub fn gen_text(rng: &mut Rng, cfg: &GenCfg) -> String {
    let len = if cfg.max_text_len == 0 {
        0
    } else {
        let lo = if rng.chance(1, 12) { 0 } else { 1 };
        rng.range(lo, cfg.max_text_len)
    };
    let mut sets: Vec<&[char]> = Vec::new();
    let all: [&[char]; 6] = [ASCII, TWO, THREE, FOUR, COMBINING, WHITESPACE];
    for (i, on) in cfg.alphabets.iter().enumerate() {
        if *on {
            sets.push(all[i]);
        }
    }
    if sets.is_empty() {
        sets.push(ASCII);
    }
    let mut s = String::new();
    for _ in 0..len {
        if cfg.pct_digits > 0 && rng.below(100) < cfg.pct_digits {
            s.push(*rng.pick(&['0', '1', '4', '9', '9', '.', ' ']));
            continue;
        }
        let set = *rng.pick(&sets);
        s.push(*rng.pick(set));
    }
    s
}

pub fn gen_value(rng: &mut Rng, cfg: &GenCfg, depth: usize) -> Val {
    // a small pool so that the same (key, value) is re-offered often; cross-type look-alikes included
    match rng.below(if depth < 2 { 14 } else { 12 }) {
        0 => Val::Null,
        1 => Val::Bool(true),
        2 => Val::Bool(false),
        3 => Val::Int(5),
        4 => Val::Int(*rng.pick(&[0, -1, 42, 7, i32::MAX as i64, -(1 << 40)])),
        5 => Val::Float(5.0),
        // exact in single precision, not exact, tiny, huge, subnormal, negative zero's neighbour: a format that
        // stores floats must give back the same f64 (NaN and infinities are not generated: unspecified)
        6 => Val::Float(*rng.pick(&[0.5, -2.25, 1e10, 3.0, 0.1, -1234.5678, 1e-10, 1e-300, 5e-324, 1.7976931348623157e308, 16777217.0, -0.000001])),
        7 => Val::Str("5".to_string()),
        8 => Val::Str(rng.pick(&["x", "y", "noun", "verb", ""]).to_string()),
        9 => Val::Str(gen_text(rng, cfg)),
        10 => Val::Datetime(
            rng.pick(&[
                "2022-01-01T12:00:00+00:00",
                "2022-01-01T13:00:00+01:00",
                "1999-12-31T23:59:59-05:00",
                "2024-02-29T00:00:00.500+00:00",
                "2001-09-09T01:46:40.123456+02:00",
                "2001-09-09T01:46:40.123456789+00:00",
            ])
            .to_string(),
        ),
        11 => Val::Str("true".to_string()),
        _ => {
            let n = rng.below(4);
            Val::List((0..n).map(|_| gen_value(rng, cfg, depth + 1)).collect())
        }
    }
}

fn pool_id(rng: &mut Rng, prefix: &str, n: usize, odd: bool) -> String {
    if odd && rng.chance(1, 10) {
        return rng
            .pick(&["é/ü", "id with space", "Ω-1", "x.y:z", "ａ", "a\"b", "q\\r"])
            .to_string();
    }
    format!("{}{}", prefix, rng.below(n.max(1)))
}

pub struct Gen<'a> {
    pub rng: &'a mut Rng,
    pub cfg: &'a GenCfg,
}

impl<'a> Gen<'a> {
    fn by(&mut self) -> By {
        if self.rng.below(100) < self.cfg.pct_by_handle {
            By::Handle
        } else {
            By::Id
        }
    }

    /// for references where a miss is an error (resources, annotations, data items; not datasets and keys,
    /// which an insertion creates when their id is not found): a handle may also come in its textual form
    fn by_lookup(&mut self) -> By {
        match self.by() {
            By::Handle if self.rng.chance(1, 3) => By::Temp,
            other => other,
        }
    }

    /// reference to a resource: mostly live
    fn res_ref(&mut self, m: &Model) -> Ref {
        let live: Vec<usize> = m.resources.iter().enumerate().filter(|(_, r)| r.live).map(|(i, _)| i).collect();
        let idx = if live.is_empty() || self.rng.below(100) < self.cfg.pct_any_ref {
            self.rng.below(m.resources.len().max(1))
        } else {
            *self.rng.pick(&live)
        };
        Ref { idx, by: self.by_lookup() }
    }

    fn set_ref(&mut self, m: &Model) -> Ref {
        let live: Vec<usize> = m
            .datasets
            .iter()
            .enumerate()
            .filter(|(_, r)| r.live && (self.cfg.allow_validation_set || r.id != TEXTVALIDATION_SET))
            .map(|(i, _)| i)
            .collect();
        let idx = if live.is_empty() || self.rng.below(100) < self.cfg.pct_any_ref {
            self.rng.below(m.datasets.len().max(1))
        } else {
            *self.rng.pick(&live)
        };
        Ref { idx, by: self.by() }
    }

    fn ann_ref(&mut self, m: &Model) -> Ref {
        let live: Vec<usize> = m.annotations.iter().enumerate().filter(|(_, r)| r.live).map(|(i, _)| i).collect();
        let idx = if live.is_empty() || self.rng.below(100) < self.cfg.pct_any_ref {
            self.rng.below(m.annotations.len().max(1))
        } else if self.rng.chance(1, 3) {
            // bias to recent annotations (builds chains)
            live[live.len() - 1 - self.rng.below(live.len().min(3))]
        } else {
            *self.rng.pick(&live)
        };
        Ref { idx, by: self.by_lookup() }
    }

    fn key_ref(&mut self, m: &Model, set: &Ref) -> Ref {
        let t = m.set_target(set);
        let idx = match t.uid {
            Some(s) => {
                let live: Vec<usize> = m.datasets[s].keys.iter().enumerate().filter(|(_, k)| k.live).map(|(i, _)| i).collect();
                if live.is_empty() || self.rng.below(100) < self.cfg.pct_any_ref {
                    self.rng.below(m.datasets[s].keys.len().max(1))
                } else {
                    *self.rng.pick(&live)
                }
            }
            None => self.rng.below(4),
        };
        Ref { idx, by: self.by() }
    }

    fn data_ref(&mut self, m: &Model, set: &Ref) -> Ref {
        let t = m.set_target(set);
        let idx = match t.uid {
            Some(s) => {
                let live: Vec<usize> = m.datasets[s].data.iter().enumerate().filter(|(_, k)| k.live).map(|(i, _)| i).collect();
                if live.is_empty() || self.rng.below(100) < self.cfg.pct_any_ref {
                    self.rng.below(m.datasets[s].data.len().max(1))
                } else {
                    *self.rng.pick(&live)
                }
            }
            None => self.rng.below(4),
        };
        Ref { idx, by: self.by_lookup() }
    }

    /// a cursor pair addressing b..e within a text of length len, in a random alignment mix
    fn cursors(&mut self, b: usize, e: usize, len: usize) -> (Cur, Cur) {
        let mode = *self.rng.pick(&[Mode::BB, Mode::BB, Mode::BE, Mode::EB, Mode::EE]);
        mode.express(b, e, len)
    }

    /// an invalid cursor pair for a text of length len
    fn bad_cursors(&mut self, len: usize) -> (Cur, Cur) {
        let l = len as isize;
        match self.rng.below(8) {
            0 => (Cur::B(0), Cur::B(len + 1)),
            1 => (Cur::B(len + 1), Cur::B(len + 2)),
            2 => {
                // inverted
                if len >= 1 {
                    let hi = self.rng.range(1, len);
                    let lo = self.rng.below(hi);
                    (Cur::B(hi), Cur::B(lo))
                } else {
                    (Cur::B(1), Cur::B(0))
                }
            }
            3 => (Cur::E(-l - 1), Cur::E(0)),
            4 => (Cur::B(0), Cur::E(-l - 1)),
            5 => (Cur::E(0), Cur::B(0)).clone(),
            6 => (Cur::B(len + 1000), Cur::B(len + 2000)),
            _ => {
                if len >= 1 {
                    // end-aligned cursor before the begin cursor
                    (Cur::B(len), Cur::E(-(l)))
                } else {
                    (Cur::B(2), Cur::E(0))
                }
            }
        }
    }

    fn valid_range(&mut self, m: &Model, res: Option<Uid>, len: usize) -> (usize, usize) {
        // geometry bias: reuse boundaries of known selections (adjacent, nested, same begin/end)
        if let Some(r) = res {
            let sels = &m.resources[r].sels;
            if !sels.is_empty() && self.rng.below(100) < self.cfg.pct_geometry {
                let (sb, se) = *self.rng.pick(sels);
                let cand: Vec<(usize, usize)> = vec![
                    (sb, se),
                    (se, len.min(se + self.rng.below(4))),
                    (sb.saturating_sub(self.rng.below(4)), sb),
                    (sb, sb),
                    (se, se),
                    (sb, len),
                    (0, se),
                    (sb + (se - sb) / 2, se),
                    (sb, sb + (se - sb) / 2),
                ];
                let (b, e) = *self.rng.pick(&cand);
                if b <= e && e <= len {
                    return (b, e);
                }
            }
        }
        if !self.cfg.pref_lens.is_empty() && self.rng.chance(1, 4) {
            let l = *self.rng.pick(&self.cfg.pref_lens);
            if l <= len {
                let b = self.rng.below(len - l + 1);
                return (b, b + l);
            }
        }
        match self.rng.below(10) {
            0 => (0, len),
            1 => (len, len),
            2 => (0, 0),
            _ => {
                let b = self.rng.below(len + 1);
                let e = b + self.rng.below(len - b + 1).min(self.rng.range(0, 6));
                (b, e)
            }
        }
    }

    fn simple_sel(&mut self, m: &Model, invalid: bool) -> Sel {
        let w = &self.cfg.wsel;
        let kind = self.rng.weighted(&[w[0], w[1], w[2], w[3], w[4], w[5], w[6]]);
        match kind {
            0 => {
                let r = self.res_ref(m);
                let t = m.res_target(&r);
                let len = t.uid.map(|u| m.resources[u].text.len()).unwrap_or(5);
                let (b, e) = if invalid {
                    self.bad_cursors(len)
                } else {
                    let (b, e) = self.valid_range(m, t.uid, len);
                    self.cursors(b, e, len)
                };
                Sel::Text { r, b, e }
            }
            1 => Sel::Resource { r: self.res_ref(m) },
            2 => Sel::DataSet { s: self.set_ref(m) },
            3 => {
                let s = self.set_ref(m);
                let k = self.key_ref(m, &s);
                Sel::Key { s, k }
            }
            4 => {
                let s = self.set_ref(m);
                let d = self.data_ref(m, &s);
                Sel::Data { s, d }
            }
            5 => Sel::Annotation {
                a: self.ann_ref(m),
                offset: None,
            },
            _ => {
                // relative offset: prefer annotations with a single text selection
                let cands: Vec<usize> = m
                    .annotations
                    .iter()
                    .enumerate()
                    .filter(|(u, a)| a.live && m.single_text(*u).is_some())
                    .map(|(u, _)| u)
                    .collect();
                if cands.is_empty() {
                    return Sel::Annotation {
                        a: self.ann_ref(m),
                        offset: None,
                    };
                }
                let uid = if self.rng.chance(1, 2) {
                    cands[cands.len() - 1 - self.rng.below(cands.len().min(3))]
                } else {
                    *self.rng.pick(&cands)
                };
                let p = m.single_text(uid).unwrap();
                let plen = p.e - p.b;
                let (b, e) = if invalid {
                    self.bad_cursors(plen)
                } else {
                    let (b, e) = match self.rng.below(4) {
                        0 => (0, plen),
                        _ => {
                            let b = self.rng.below(plen + 1);
                            (b, b + self.rng.below(plen - b + 1))
                        }
                    };
                    self.cursors(b, e, plen)
                };
                Sel::Annotation {
                    a: Ref { idx: uid, by: self.by() },
                    offset: Some((b, e)),
                }
            }
        }
    }

    /// [A/ts_h, A/ts_h+1, B/ts_h+2]: known selections, begin-aligned, in textual order within A, A before B
    fn cross_resource_run(&mut self, m: &Model) -> Option<Vec<Sel>> {
        let live: Vec<usize> = m.resources.iter().enumerate().filter(|(_, r)| r.live).map(|(i, _)| i).collect();
        for &a in live.iter() {
            for &b in live.iter() {
                if m.resources[a].handle >= m.resources[b].handle {
                    continue;
                }
                let sa = &m.resources[a].sels;
                let sb = &m.resources[b].sels;
                for h in 0..sa.len().saturating_sub(1) {
                    if sa[h] < sa[h + 1] && h + 2 < sb.len() {
                        let mk = |r: usize, (b, e): (usize, usize)| Sel::Text {
                            r: Ref { idx: r, by: By::Id },
                            b: Cur::B(b),
                            e: Cur::B(e),
                        };
                        return Some(vec![mk(a, sa[h]), mk(a, sa[h + 1]), mk(b, sb[h + 2])]);
                    }
                }
            }
        }
        None
    }

    pub fn selector(&mut self, m: &Model, invalid: bool) -> Sel {
        let w = &self.cfg.wsel;
        let simple_w: usize = w[0..7].iter().sum();
        let kind = self.rng.weighted(&[simple_w.max(1), w[7], w[8], w[9]]);
        if kind == 0 {
            return self.simple_sel(m, invalid);
        }
        let n = self.rng.range(1, 4);
        let mut subs: Vec<Sel> = Vec::new();
        let bad_at = if invalid { Some(self.rng.below(n)) } else { None };
        // bias: runs of adjacent text selections on one resource / consecutive annotations (range compression)
        let style = self.rng.below(6);
        if style == 5 && !invalid && self.cfg.same_annotation_twice {
            // the same annotation named twice (two parts of it, or twice as a whole), optionally with another
            // member: every index entry made per member must also be taken out per member on removal
            let live: Vec<usize> = m.annotations.iter().enumerate().filter(|(_, a)| a.live).map(|(i, _)| i).collect();
            if !live.is_empty() {
                let uid = *self.rng.pick(&live);
                let parts = match m.single_text(uid) {
                    Some(t) if t.e - t.b >= 2 && self.rng.chance(2, 3) => {
                        let k = self.rng.range(1, t.e - t.b - 1);
                        (Some((Cur::B(0), Cur::B(k))), Some((Cur::B(k), Cur::E(0))))
                    }
                    _ => (None, None),
                };
                subs.push(Sel::Annotation { a: Ref { idx: uid, by: By::Handle }, offset: parts.0 });
                if self.rng.chance(1, 3) {
                    subs.push(self.simple_sel(m, false));
                }
                subs.push(Sel::Annotation { a: Ref { idx: uid, by: By::Handle }, offset: parts.1 });
                return match kind {
                    1 => Sel::Multi(subs),
                    2 => Sel::Composite(subs),
                    _ => Sel::Directional(subs),
                };
            }
        }
        if style == 4 && !invalid {
            // a run of consecutive whole annotations (one merged range) with a tail of one to three other
            // members behind it: everything written per member (resource, offsets, ids) must stay aligned
            // with the members the range expands to
            let live: Vec<usize> = m.annotations.iter().enumerate().filter(|(_, a)| a.live).map(|(i, _)| i).collect();
            let k = self.rng.range(2, 3);
            if live.len() >= k {
                let start = self.rng.below(live.len() - k + 1);
                for &uid in &live[start..start + k] {
                    subs.push(Sel::Annotation { a: Ref { idx: uid, by: By::Handle }, offset: None });
                }
                for _ in 0..self.rng.range(1, 3) {
                    subs.push(self.simple_sel(m, false));
                }
                if self.rng.chance(1, 4) {
                    self.rng.shuffle(&mut subs);
                }
                return match kind {
                    1 => Sel::Multi(subs),
                    2 => Sel::Composite(subs),
                    _ => Sel::Directional(subs),
                };
            }
        }
        for i in 0..n {
            let bad = bad_at == Some(i);
            if bad && self.rng.chance(1, 3) {
                // nested complex selector (with fresh spans inside): must be refused, nothing may stay behind
                let inner = vec![self.simple_sel(m, false), self.simple_sel(m, false)];
                subs.push(match self.rng.below(3) {
                    0 => Sel::Multi(inner),
                    1 => Sel::Composite(inner),
                    _ => Sel::Directional(inner),
                });
                if self.rng.chance(1, 2) {
                    // two nested siblings
                    let inner2 = vec![self.simple_sel(m, false)];
                    subs.push(match self.rng.below(3) {
                        0 => Sel::Multi(inner2),
                        1 => Sel::Composite(inner2),
                        _ => Sel::Directional(inner2),
                    });
                }
                continue;
            }
            match style {
                0 => {
                    // adjacent text selections, begin-aligned, on one resource
                    let live: Vec<usize> = m.resources.iter().enumerate().filter(|(_, r)| r.live && r.text.len() >= n).map(|(i, _)| i).collect();
                    if let (Some(&r), false) = (live.first(), bad) {
                        let len = m.resources[r].text.len();
                        let step = (len / n).max(1);
                        let b = (i * step).min(len);
                        let e = ((i + 1) * step).min(len);
                        subs.push(Sel::Text {
                            r: Ref { idx: r, by: By::Id },
                            b: Cur::B(b),
                            e: Cur::B(e),
                        });
                    } else {
                        subs.push(self.simple_sel(m, bad));
                    }
                }
                1 => {
                    // consecutive annotations
                    let live: Vec<usize> = m.annotations.iter().enumerate().filter(|(_, a)| a.live).map(|(i, _)| i).collect();
                    if live.len() >= n && !bad {
                        let start = live.len() - n;
                        let uid = live[start + i];
                        // per member: the whole annotation, or a begin/end-aligned part of it (a merged range must keep each member's own offset)
                        let offset = match (m.single_text(uid), self.rng.below(4)) {
                            (Some(t), 0) if t.e > t.b => Some((Cur::B(0), Cur::E(-(self.rng.range(1, t.e - t.b) as isize)))),
                            (Some(t), 1) if t.e > t.b => Some((Cur::B(self.rng.range(1, t.e - t.b)), Cur::E(0))),
                            (Some(_), 2) => None,
                            (Some(_), _) => Some((Cur::B(0), Cur::E(0))),
                            (None, _) => None,
                        };
                        subs.push(Sel::Annotation {
                            a: Ref { idx: uid, by: By::Handle },
                            offset,
                        });
                    } else {
                        subs.push(self.simple_sel(m, bad));
                    }
                }
                2 => {
                    // a run of known selections with consecutive handles that crosses into another resource
                    // (range compression must not merge across resources)
                    if i == 0 && !bad {
                        if let Some(run) = self.cross_resource_run(m) {
                            subs = run;
                            break;
                        }
                    }
                    subs.push(self.simple_sel(m, bad));
                }
                _ => subs.push(self.simple_sel(m, bad)),
            }
        }
        if self.rng.chance(1, 2) {
            self.rng.shuffle(&mut subs);
        }
        match kind {
            1 => Sel::Multi(subs),
            2 => Sel::Composite(subs),
            _ => Sel::Directional(subs),
        }
    }

    fn dataspec(&mut self, m: &Model, invalid: bool) -> DataSpec {
        if invalid || self.rng.chance(1, 4) {
            // reference to existing data (stale/ghost when invalid)
            let s = self.set_ref(m);
            let mut d = self.data_ref(m, &s);
            if invalid {
                // make it dangle: a removed data item if there is one, else a ghost
                let t = m.set_target(&s);
                d = Ref { idx: usize::MAX, by: d.by };
                if let Some(su) = t.uid {
                    if let Some(dead) = m.datasets[su].data.iter().position(|d| !d.live) {
                        if self.rng.chance(1, 2) {
                            d = Ref { idx: dead, by: By::Handle };
                        }
                    }
                }
            }
            return DataSpec::Existing { set: s, data: d };
        }
        let set = if self.rng.chance(1, 14) {
            // no dataset named at all
            SetRef::Unnamed
        } else if m.datasets.iter().any(|s| s.live) && self.rng.chance(4, 5) {
            SetRef::Existing(Ref {
                idx: self.set_ref(m).idx,
                by: By::Id,
            })
        } else {
            SetRef::Literal(pool_id(self.rng, "s", self.cfg.n_set_ids, self.cfg.allow_odd_ids))
        };
        let id = if self.rng.below(100) < self.cfg.pct_data_id {
            Some(pool_id(self.rng, "d", self.cfg.n_data_ids, self.cfg.allow_odd_ids))
        } else {
            None
        };
        DataSpec::New {
            set,
            key: pool_id(self.rng, "k", self.cfg.n_key_ids, self.cfg.allow_odd_ids),
            value: gen_value(self.rng, self.cfg, 0),
            id,
        }
    }

    fn annotate_parts(&mut self, m: &Model) -> (Option<String>, Sel, Vec<DataSpec>) {
        let invalid = self.rng.below(100) < self.cfg.pct_invalid;
        // where the mistake sits: target, data (position p), or duplicate id
        let stage = if invalid { self.rng.below(3) } else { 99 };
        let target = if stage == 0 && self.rng.chance(1, 8) {
            Sel::Missing
        } else {
            self.selector(m, stage == 0)
        };
        let ndata = self.rng.weighted(&[2, 5, 3, 1]);
        let bad_data_at = if stage == 1 { Some(self.rng.below(ndata.max(1))) } else { None };
        let mut data = Vec::new();
        for i in 0..ndata.max(if stage == 1 { 1 } else { 0 }) {
            data.push(self.dataspec(m, bad_data_at == Some(i)));
        }
        let id = if stage == 2 {
            // duplicate id of a live annotation (if any)
            m.annotations.iter().filter(|a| a.live).filter_map(|a| a.id.clone()).last().or_else(|| Some(pool_id(self.rng, "a", self.cfg.n_ann_ids, false)))
        } else if self.rng.below(100) < self.cfg.pct_ann_id {
            // fresh id: the pool is small, so collisions with live and removed ids occur naturally
            let mut id = pool_id(self.rng, "a", self.cfg.n_ann_ids, self.cfg.allow_odd_ids);
            if m.find_annotation_by_id(&id).is_some() && self.rng.chance(3, 4) {
                id = format!("a{}", m.annotations.len() + 100);
            }
            Some(id)
        } else {
            None
        };
        (id, target, data)
    }

    pub fn next_op(&mut self, m: &Model) -> Op {
        for _ in 0..8 {
            let op = self.next_op_inner(m);
            if self.cfg.pct_redraw_residue > 0 && matches!(op, Op::Annotate { .. } | Op::AnnotateBatch { .. }) {
                let mut probe = m.clone();
                if probe.apply(&op).0 == Outcome::Err
                    && crate::world::leaves_residue(m, &op)
                    && self.rng.below(100) < self.cfg.pct_redraw_residue
                {
                    continue;
                }
            }
            return op;
        }
        self.next_op_inner(m)
    }

    fn next_op_inner(&mut self, m: &Model) -> Op {
        let mut w = self.cfg.w;
        // bootstrap: something to annotate
        if !m.resources.iter().any(|r| r.live) {
            w[W_ADD_RESOURCE] += 60;
        }
        if !m.datasets.iter().any(|r| r.live) {
            w[W_ADD_DATASET] += 10;
        }
        if self.cfg.restart_formats.is_empty() {
            w[W_RESTART] = 0;
        }
        match self.rng.weighted(&w) {
            W_ADD_RESOURCE => Op::AddResource {
                id: pool_id(self.rng, "r", self.cfg.n_res_ids + m.resources.len() / 2, self.cfg.allow_odd_ids),
                text: gen_text(self.rng, self.cfg),
                // now and then the resource is built by hand and its text is replaced before it is added
                // (a first text of another length and byte layout, usually longer)
                replaced: if self.rng.chance(1, 6) {
                    let mut first = gen_text(self.rng, self.cfg);
                    if self.rng.chance(2, 3) {
                        first.push_str("abcdefghijklmnopqrstuvwxyz0123456789");
                    }
                    Some(first)
                } else {
                    None
                },
            },
            W_ADD_DATASET => {
                // now and then: declare a key without data in an existing dataset
                if m.datasets.iter().any(|s| s.live) && self.rng.chance(1, 3) {
                    return Op::AddKey {
                        s: self.set_ref(m),
                        key: pool_id(self.rng, "k", self.cfg.n_key_ids + 2, false),
                    };
                }
                let n = self.rng.below(4);
                let mut data = Vec::new();
                for _ in 0..n {
                    let id = if self.rng.below(100) < self.cfg.pct_data_id {
                        Some(pool_id(self.rng, "d", self.cfg.n_data_ids, false))
                    } else {
                        None
                    };
                    data.push((id, pool_id(self.rng, "k", self.cfg.n_key_ids, false), gen_value(self.rng, self.cfg, 0)));
                }
                Op::AddDataset {
                    id: pool_id(self.rng, "s", self.cfg.n_set_ids + m.datasets.len() / 2, self.cfg.allow_odd_ids),
                    keys: Vec::new(),
                    data,
                }
            }
            W_INSERT_DATA => match self.dataspec(m, false) {
                DataSpec::New { set, key, value, id } => Op::InsertData { set, id, key, value },
                DataSpec::Existing { .. } => Op::InsertData {
                    set: SetRef::Literal(pool_id(self.rng, "s", self.cfg.n_set_ids, false)),
                    id: None,
                    key: pool_id(self.rng, "k", self.cfg.n_key_ids, false),
                    value: gen_value(self.rng, self.cfg, 0),
                },
            },
            W_ANNOTATE => {
                let (id, target, data) = self.annotate_parts(m);
                Op::Annotate { id, target, data }
            }
            W_ANNOTATE_BATCH => {
                if self.rng.chance(1, 3) {
                    // the same through a file, now and then torn or malformed at its last element
                    let n = self.rng.range(2, 4);
                    let items = (0..n).map(|_| self.annotate_parts(m)).collect();
                    let fault = match self.rng.below(5) {
                        0 | 1 => FileFault::None,
                        2 => FileFault::Truncate(self.rng.range(1, 999)),
                        3 => FileFault::DropTarget,
                        _ => FileFault::Garbage,
                    };
                    return Op::AnnotateFile { items, fault };
                }
                let n = self.rng.range(1, 4);
                let items = (0..n).map(|_| self.annotate_parts(m)).collect();
                Op::AnnotateBatch { items }
            }
            W_REMOVE_ANNOTATION => {
                if self.rng.chance(1, 8) && m.resources.iter().any(|r| r.live) {
                    Op::RemoveAnnotationsOn { r: self.res_ref(m) }
                } else {
                    Op::RemoveAnnotation { a: self.ann_ref(m) }
                }
            }
            W_REMOVE_DATA => {
                let s = self.set_ref(m);
                let d = self.data_ref(m, &s);
                Op::RemoveData {
                    s,
                    d,
                    strict: self.rng.chance(1, 2),
                }
            }
            W_REMOVE_KEY => {
                let s = self.set_ref(m);
                let k = self.key_ref(m, &s);
                Op::RemoveKey {
                    s,
                    k,
                    strict: self.rng.chance(1, 2),
                }
            }
            W_REMOVE_RESOURCE => Op::RemoveResource { r: self.res_ref(m) },
            W_REMOVE_DATASET => {
                let mut s = self.set_ref(m);
                if s.by == By::Handle && self.rng.chance(1, 3) {
                    s.by = By::Temp;
                }
                Op::RemoveDataset { s }
            }
            W_PROTECT => Op::ProtectText {
                mode: *self.rng.pick(&[ProtectMode::Auto, ProtectMode::Checksum, ProtectMode::Text, ProtectMode::Both]),
            },
            W_STRIP_ANN => Op::StripAnnotationIds,
            W_STRIP_DATA => Op::StripDataIds,
            W_REINDEX => Op::Reindex,
            _ => {
                let format = *self.rng.pick(&self.cfg.restart_formats);
                // now and then only a save: the store lives on with its changed flags cleared
                if matches!(format, Format::Csv | Format::JsonInclude) && self.rng.chance(1, 3) {
                    Op::Checkpoint { format }
                } else {
                    Op::Restart { format }
                }
            }
        }
    }
}
