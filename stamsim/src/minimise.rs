//! Delta debugging over the operation list of a trace, keeping the violation signature fixed.

use crate::ops::*;
use crate::world::*;
use std::time::{Duration, Instant};

/// returns the signature (if any) of the first violation owned by one of `owners`
pub fn owned_signature(trace: &Trace, owners: &[&str]) -> Option<String> {
    let r = run_trace(trace);
    let step = r.step?;
    let opkind = trace.ops[step].kind();
    r.violations
        .iter()
        .find(|v| v.owned_by(owners))
        .map(|v| format!("{}|{}", v.signature(), opkind))
}

pub fn minimise(trace: &Trace, owners: &[&str], signature: &str, budget: Duration) -> Trace {
    let start = Instant::now();
    let mut best = trace.clone();
    // cut everything after the failing step
    if let Some(step) = run_trace(&best).step {
        best.ops.truncate(step + 1);
    }
    let holds = |t: &Trace| owned_signature(t, owners).as_deref() == Some(signature);
    // ddmin: remove chunks, halving the chunk size; at size 1 repeat until a fixpoint
    let mut chunk = (best.ops.len() / 2).max(1);
    loop {
        let mut i = 0;
        let mut progressed = false;
        while i < best.ops.len() && best.ops.len() > 1 && start.elapsed() < budget {
            let end = (i + chunk).min(best.ops.len());
            let mut cand = best.clone();
            cand.ops.drain(i..end);
            if !cand.ops.is_empty() && holds(&cand) {
                if let Some(step) = run_trace(&cand).step {
                    cand.ops.truncate(step + 1);
                }
                best = cand;
                progressed = true;
            } else {
                i += chunk;
            }
        }
        if start.elapsed() >= budget {
            break;
        }
        if chunk > 1 {
            chunk /= 2;
        } else if !progressed {
            break;
        }
    }
    // simplify individual operations
    let mut changed = true;
    while changed && start.elapsed() < budget {
        changed = false;
        for i in 0..best.ops.len() {
            if start.elapsed() >= budget {
                break;
            }
            for cand_op in simplifications(&best.ops[i]) {
                let mut cand = best.clone();
                cand.ops[i] = cand_op;
                if holds(&cand) {
                    best = cand;
                    changed = true;
                    break;
                }
            }
        }
    }
    // simplify the world configuration
    for (mi, stf) in [(100usize, true), (100, false)] {
        let mut cand = best.clone();
        cand.world.milestone_interval = mi;
        cand.world.shrink_to_fit = stf;
        if holds(&cand) {
            best = cand;
            break;
        }
    }
    best
}

fn simplify_sel(s: &Sel) -> Vec<Sel> {
    let mut out = Vec::new();
    match s {
        Sel::Multi(v) | Sel::Composite(v) | Sel::Directional(v) => {
            // fewer sub-selectors, or a single one promoted
            for i in 0..v.len() {
                if v.len() > 1 {
                    let mut w = v.clone();
                    w.remove(i);
                    out.push(match s {
                        Sel::Multi(_) => Sel::Multi(w),
                        Sel::Composite(_) => Sel::Composite(w),
                        _ => Sel::Directional(w),
                    });
                }
                out.push(v[i].clone());
            }
        }
        Sel::Annotation { a, offset: Some(_) } => out.push(Sel::Annotation { a: *a, offset: None }),
        _ => {}
    }
    out
}

fn simplifications(op: &Op) -> Vec<Op> {
    let mut out = Vec::new();
    match op {
        Op::Annotate { id, target, data } => {
            for i in 0..data.len() {
                let mut d = data.clone();
                d.remove(i);
                out.push(Op::Annotate {
                    id: id.clone(),
                    target: target.clone(),
                    data: d,
                });
            }
            for t in simplify_sel(target) {
                out.push(Op::Annotate {
                    id: id.clone(),
                    target: t,
                    data: data.clone(),
                });
            }
            if id.is_some() {
                out.push(Op::Annotate {
                    id: None,
                    target: target.clone(),
                    data: data.clone(),
                });
            }
        }
        Op::AnnotateFile { items, fault } => {
            for i in 0..items.len().saturating_sub(1) {
                if items.len() > 2 {
                    let mut v = items.clone();
                    v.remove(i);
                    out.push(Op::AnnotateFile { items: v, fault: *fault });
                }
            }
        }
        Op::AnnotateBatch { items } => {
            for i in 0..items.len() {
                if items.len() > 1 {
                    let mut v = items.clone();
                    v.remove(i);
                    out.push(Op::AnnotateBatch { items: v });
                }
            }
            if items.len() == 1 {
                let (id, target, data) = items[0].clone();
                out.push(Op::Annotate { id, target, data });
            }
        }
        Op::AddResource { id, text, replaced } => {
            let chars: Vec<char> = text.chars().collect();
            if replaced.is_some() {
                out.push(Op::AddResource { id: id.clone(), text: text.clone(), replaced: None });
            }
            if chars.len() > 1 {
                out.push(Op::AddResource {
                    id: id.clone(),
                    text: chars[..chars.len() / 2].iter().collect(),
                    replaced: replaced.clone(),
                });
                out.push(Op::AddResource {
                    id: id.clone(),
                    text: chars.iter().map(|c| if c.is_ascii() { *c } else { 'x' }).collect(),
                    replaced: replaced.clone(),
                });
            }
        }
        Op::AddDataset { id, keys, data } => {
            for i in 0..data.len() {
                let mut d = data.clone();
                d.remove(i);
                out.push(Op::AddDataset {
                    id: id.clone(),
                    keys: keys.clone(),
                    data: d,
                });
            }
        }
        _ => {}
    }
    out
}
