//! SimFs: the in-memory file system installed behind stam's file seam (hook H1), with
//! deterministic, addressable fault injection.
//!
//! Every `open`/`create` is numbered ("I/O call k") since the last `arm()`. A fault is
//! addressed as (call k, kind, parameter) and therefore replays exactly. "Legal" noise
//! (short reads/writes, EINTR) is drawn from a dedicated PRNG sub-stream.

use crate::rng::Rng;
use serde::{Deserialize, Serialize};
use std::cell::RefCell;
use std::collections::BTreeMap;
use std::io::{self, BufRead, Read, Write};
use std::path::Path;
use std::rc::Rc;

#[derive(Clone, Debug, Serialize, Deserialize, PartialEq)]
pub enum FaultKind {
    /// open fails: file not found
    OpenEnoent,
    /// open fails: permission denied
    OpenEacces,
    /// read fails with EIO once `at` bytes were delivered
    ReadEio { at: usize },
    /// file appears truncated to `at` bytes (EOF early)
    Truncate { at: usize },
    /// one bit of the stored file is seen flipped by this reader
    BitFlip { at: usize, bit: u8 },
    /// a chunk is seen zeroed
    ZeroChunk { at: usize, len: usize },
    /// create fails: permission denied
    CreateEacces,
    /// create fails: no space
    CreateEnospc,
    /// write fails with ENOSPC after `after` bytes were accepted (file keeps the prefix)
    WriteEnospc { after: usize },
    /// write fails with EIO after `after` bytes
    WriteEio { after: usize },
}

impl FaultKind {
    pub fn name(&self) -> &'static str {
        match self {
            FaultKind::OpenEnoent => "open_enoent",
            FaultKind::OpenEacces => "open_eacces",
            FaultKind::ReadEio { .. } => "read_eio",
            FaultKind::Truncate { .. } => "truncate",
            FaultKind::BitFlip { .. } => "bitflip",
            FaultKind::ZeroChunk { .. } => "zero_chunk",
            FaultKind::CreateEacces => "create_eacces",
            FaultKind::CreateEnospc => "create_enospc",
            FaultKind::WriteEnospc { .. } => "write_enospc",
            FaultKind::WriteEio { .. } => "write_eio",
        }
    }
    pub fn is_read_side(&self) -> bool {
        matches!(
            self,
            FaultKind::OpenEnoent
                | FaultKind::OpenEacces
                | FaultKind::ReadEio { .. }
                | FaultKind::Truncate { .. }
                | FaultKind::BitFlip { .. }
                | FaultKind::ZeroChunk { .. }
        )
    }
}

#[derive(Clone, Debug, Serialize, Deserialize, PartialEq)]
pub struct Fault {
    /// index of the open/create call (0-based) since `arm()`; `usize::MAX` never fires
    pub call: usize,
    /// if set, the fault only applies when the path ends with this suffix
    pub path_suffix: Option<String>,
    pub kind: FaultKind,
}

pub struct FsInner {
    pub files: BTreeMap<String, Vec<u8>>,
    plan: Vec<Fault>,
    call_no: usize,
    pub fired: BTreeMap<&'static str, usize>,
    pub opens: usize,
    pub creates: usize,
    pub reads: usize,
    pub writes: usize,
    noise: Option<Rng>,
    noise_eintr: bool,
    on_call: Option<Rc<dyn Fn(&'static str)>>,
    /// budget of read calls (a loader that spins on I/O trips this deterministically)
    pub read_budget: usize,
    pub log: Vec<String>,
    pub log_enabled: bool,
}

#[derive(Clone)]
pub struct SimFs {
    pub inner: Rc<RefCell<FsInner>>,
}

impl SimFs {
    pub fn new() -> Self {
        SimFs {
            inner: Rc::new(RefCell::new(FsInner {
                files: BTreeMap::new(),
                plan: Vec::new(),
                call_no: 0,
                fired: BTreeMap::new(),
                opens: 0,
                creates: 0,
                reads: 0,
                writes: 0,
                noise: None,
                noise_eintr: false,
                on_call: None,
                read_budget: usize::MAX,
                log: Vec::new(),
                log_enabled: false,
            })),
        }
    }

    /// Install this file system behind stam's file seam for the current thread
    pub fn install(&self) {
        let vfs: Rc<dyn stam::verif_hooks::Vfs> = Rc::new(self.clone());
        stam::verif_hooks::set_vfs(Some(vfs));
    }

    pub fn uninstall() {
        stam::verif_hooks::set_vfs(None);
    }

    /// Enable legal noise (short reads/writes and optionally EINTR) from the given PRNG
    pub fn set_noise(&self, rng: Option<Rng>, eintr: bool) {
        let mut inner = self.inner.borrow_mut();
        inner.noise = rng;
        inner.noise_eintr = eintr;
    }

    pub fn set_on_call(&self, f: Option<Rc<dyn Fn(&'static str)>>) {
        self.inner.borrow_mut().on_call = f;
    }

    /// Arm a fault plan: call numbering restarts at 0
    pub fn arm(&self, plan: Vec<Fault>) {
        let mut inner = self.inner.borrow_mut();
        inner.plan = plan;
        inner.call_no = 0;
    }

    pub fn disarm(&self) {
        let mut inner = self.inner.borrow_mut();
        inner.plan.clear();
        inner.call_no = 0;
    }

    pub fn calls_since_arm(&self) -> usize {
        self.inner.borrow().call_no
    }

    pub fn put(&self, path: &str, content: &[u8]) {
        self.inner
            .borrow_mut()
            .files
            .insert(path.to_string(), content.to_vec());
    }

    pub fn get(&self, path: &str) -> Option<Vec<u8>> {
        self.inner.borrow().files.get(path).cloned()
    }

    pub fn remove(&self, path: &str) {
        self.inner.borrow_mut().files.remove(path);
    }

    pub fn list(&self) -> Vec<String> {
        self.inner.borrow().files.keys().cloned().collect()
    }

    pub fn snapshot(&self) -> BTreeMap<String, Vec<u8>> {
        self.inner.borrow().files.clone()
    }

    pub fn restore(&self, files: BTreeMap<String, Vec<u8>>) {
        self.inner.borrow_mut().files = files;
    }

    pub fn clear(&self) {
        self.inner.borrow_mut().files.clear();
    }

    pub fn fired(&self) -> BTreeMap<&'static str, usize> {
        self.inner.borrow().fired.clone()
    }

    pub fn set_read_budget(&self, n: usize) {
        self.inner.borrow_mut().read_budget = n;
    }

    fn hook(&self, site: &'static str) {
        let f = self.inner.borrow().on_call.clone();
        if let Some(f) = f {
            f(site);
        }
    }

    /// Returns the faults that apply to this call
    fn faults_for_call(&self, path: &str, read_side: bool) -> Vec<FaultKind> {
        let mut inner = self.inner.borrow_mut();
        let k = inner.call_no;
        inner.call_no += 1;
        let mut v = Vec::new();
        for f in inner.plan.iter() {
            if f.call == k
                && f.kind.is_read_side() == read_side
                && f.path_suffix
                    .as_ref()
                    .map(|s| path.ends_with(s.as_str()))
                    .unwrap_or(true)
            {
                v.push(f.kind.clone());
            }
        }
        if inner.log_enabled {
            let msg = format!(
                "io#{} {} {} faults={:?}",
                k,
                if read_side { "open" } else { "create" },
                path,
                v
            );
            inner.log.push(msg);
        }
        v
    }

    fn fire(&self, name: &'static str) {
        *self.inner.borrow_mut().fired.entry(name).or_insert(0) += 1;
    }
}

fn norm(path: &Path) -> String {
    path.to_string_lossy().into_owned()
}

impl stam::verif_hooks::Vfs for SimFs {
    fn open(&self, path: &Path) -> io::Result<Box<dyn BufRead>> {
        self.hook("fs.open");
        let p = norm(path);
        self.inner.borrow_mut().opens += 1;
        let faults = self.faults_for_call(&p, true);
        let mut content = match self.inner.borrow().files.get(&p) {
            Some(c) => c.clone(),
            None => return Err(io::Error::new(io::ErrorKind::NotFound, "simfs: no such file")),
        };
        let mut eio_at: Option<usize> = None;
        for f in faults {
            match f {
                FaultKind::OpenEnoent => {
                    self.fire("open_enoent");
                    return Err(io::Error::new(io::ErrorKind::NotFound, "simfs: injected ENOENT"));
                }
                FaultKind::OpenEacces => {
                    self.fire("open_eacces");
                    return Err(io::Error::new(
                        io::ErrorKind::PermissionDenied,
                        "simfs: injected EACCES",
                    ));
                }
                FaultKind::ReadEio { at } => {
                    eio_at = Some(at.min(content.len()));
                }
                FaultKind::Truncate { at } => {
                    if at < content.len() {
                        content.truncate(at);
                        self.fire("truncate");
                    }
                }
                FaultKind::BitFlip { at, bit } => {
                    if at < content.len() {
                        content[at] ^= 1 << (bit % 8);
                        self.fire("bitflip");
                    }
                }
                FaultKind::ZeroChunk { at, len } => {
                    if at < content.len() {
                        let end = (at + len).min(content.len());
                        for b in &mut content[at..end] {
                            *b = 0;
                        }
                        self.fire("zero_chunk");
                    }
                }
                _ => {}
            }
        }
        let noise = {
            let mut inner = self.inner.borrow_mut();
            let eintr = inner.noise_eintr;
            inner
                .noise
                .as_mut()
                .map(|r| (Rng::new(r.next_u64()), eintr))
        };
        Ok(Box::new(SimReader {
            fs: self.clone(),
            data: content,
            pos: 0,
            eio_at,
            noise,
            buf: Vec::new(),
            bufpos: 0,
        }))
    }

    fn create(&self, path: &Path) -> io::Result<Box<dyn Write>> {
        self.hook("fs.create");
        let p = norm(path);
        self.inner.borrow_mut().creates += 1;
        let faults = self.faults_for_call(&p, false);
        let mut fail_after: Option<(usize, io::ErrorKind, &'static str)> = None;
        for f in faults {
            match f {
                FaultKind::CreateEacces => {
                    self.fire("create_eacces");
                    return Err(io::Error::new(
                        io::ErrorKind::PermissionDenied,
                        "simfs: injected EACCES",
                    ));
                }
                FaultKind::CreateEnospc => {
                    self.fire("create_enospc");
                    return Err(io::Error::new(io::ErrorKind::Other, "simfs: injected ENOSPC"));
                }
                FaultKind::WriteEnospc { after } => {
                    fail_after = Some((after, io::ErrorKind::Other, "write_enospc"));
                }
                FaultKind::WriteEio { after } => {
                    fail_after = Some((after, io::ErrorKind::Other, "write_eio"));
                }
                _ => {}
            }
        }
        // like File::create: truncate immediately
        self.inner.borrow_mut().files.insert(p.clone(), Vec::new());
        let noise = {
            let mut inner = self.inner.borrow_mut();
            let eintr = inner.noise_eintr;
            inner
                .noise
                .as_mut()
                .map(|r| (Rng::new(r.next_u64()), eintr))
        };
        Ok(Box::new(SimWriter {
            fs: self.clone(),
            path: p,
            written: 0,
            fail_after,
            noise,
        }))
    }
}

struct SimReader {
    fs: SimFs,
    data: Vec<u8>,
    pos: usize,
    eio_at: Option<usize>,
    noise: Option<(Rng, bool)>,
    buf: Vec<u8>,
    bufpos: usize,
}

impl SimReader {
    fn raw_read(&mut self, out: &mut [u8]) -> io::Result<usize> {
        self.fs.hook("fs.read");
        {
            let mut inner = self.fs.inner.borrow_mut();
            inner.reads += 1;
            if inner.reads > inner.read_budget {
                return Err(io::Error::new(io::ErrorKind::Other, "simfs: read budget exceeded"));
            }
        }
        if out.is_empty() {
            return Ok(0);
        }
        let mut limit = self.data.len();
        if let Some(at) = self.eio_at {
            if self.pos >= at {
                self.fs.fire("read_eio");
                return Err(io::Error::new(io::ErrorKind::Other, "simfs: injected EIO"));
            }
            limit = at;
        }
        let mut n = out.len().min(limit - self.pos);
        if let Some((rng, eintr)) = self.noise.as_mut() {
            if *eintr && rng.chance(1, 6) {
                self.fs.fire("read_eintr");
                return Err(io::Error::new(io::ErrorKind::Interrupted, "simfs: injected EINTR"));
            }
            if n > 1 && rng.chance(1, 2) {
                n = 1 + rng.below(n.min(7));
                self.fs.fire("short_read");
            }
        }
        out[..n].copy_from_slice(&self.data[self.pos..self.pos + n]);
        self.pos += n;
        Ok(n)
    }
}

impl Read for SimReader {
    fn read(&mut self, out: &mut [u8]) -> io::Result<usize> {
        if self.bufpos < self.buf.len() {
            let n = out.len().min(self.buf.len() - self.bufpos);
            out[..n].copy_from_slice(&self.buf[self.bufpos..self.bufpos + n]);
            self.bufpos += n;
            return Ok(n);
        }
        self.raw_read(out)
    }
}

impl BufRead for SimReader {
    fn fill_buf(&mut self) -> io::Result<&[u8]> {
        if self.bufpos >= self.buf.len() {
            let mut tmp = vec![0u8; 64];
            let n = self.raw_read(&mut tmp)?;
            tmp.truncate(n);
            self.buf = tmp;
            self.bufpos = 0;
        }
        Ok(&self.buf[self.bufpos..])
    }
    fn consume(&mut self, amt: usize) {
        self.bufpos = (self.bufpos + amt).min(self.buf.len());
    }
}

struct SimWriter {
    fs: SimFs,
    path: String,
    written: usize,
    fail_after: Option<(usize, io::ErrorKind, &'static str)>,
    noise: Option<(Rng, bool)>,
}

impl Write for SimWriter {
    fn write(&mut self, data: &[u8]) -> io::Result<usize> {
        self.fs.hook("fs.write");
        self.fs.inner.borrow_mut().writes += 1;
        if data.is_empty() {
            return Ok(0);
        }
        let mut n = data.len();
        if let Some((after, kind, name)) = self.fail_after {
            if self.written >= after {
                self.fs.fire(name);
                return Err(io::Error::new(kind, "simfs: injected write failure"));
            }
            n = n.min(after - self.written);
        }
        if let Some((rng, eintr)) = self.noise.as_mut() {
            if *eintr && rng.chance(1, 6) {
                self.fs.fire("write_eintr");
                return Err(io::Error::new(io::ErrorKind::Interrupted, "simfs: injected EINTR"));
            }
            if n > 1 && rng.chance(1, 2) {
                n = 1 + rng.below(n.min(7));
                self.fs.fire("short_write");
            }
        }
        let mut inner = self.fs.inner.borrow_mut();
        inner
            .files
            .entry(self.path.clone())
            .or_default()
            .extend_from_slice(&data[..n]);
        self.written += n;
        Ok(n)
    }

    fn flush(&mut self) -> io::Result<()> {
        Ok(())
    }
}
