//! The reference model: deliberately naive, no indices at all. Text is `Vec<char>`. Every
//! "reverse" answer is computed by scanning all live annotations.
//!
//! The model decides *at execution time* whether a request is valid and what it must return,
//! so any subsequence of a trace is again a meaningful test.

use crate::ops::*;
use std::collections::BTreeSet;

pub type Uid = usize;

pub const TEXTVALIDATION_SET: &str = "https://w3id.org/stam/extensions/stam-textvalidation/";

#[derive(Clone, Copy, Debug, PartialEq, Eq, PartialOrd, Ord)]
pub enum Mode {
    BB,
    BE,
    EB,
    EE,
}

impl Mode {
    pub fn of(b: &Cur, e: &Cur) -> Mode {
        match (b, e) {
            (Cur::B(_), Cur::B(_)) => Mode::BB,
            (Cur::B(_), Cur::E(_)) => Mode::BE,
            (Cur::E(_), Cur::B(_)) => Mode::EB,
            (Cur::E(_), Cur::E(_)) => Mode::EE,
        }
    }
    pub fn all() -> [Mode; 4] {
        [Mode::BB, Mode::BE, Mode::EB, Mode::EE]
    }
    pub fn to_stam(&self) -> stam::OffsetMode {
        match self {
            Mode::BB => stam::OffsetMode::BeginBegin,
            Mode::BE => stam::OffsetMode::BeginEnd,
            Mode::EB => stam::OffsetMode::EndBegin,
            Mode::EE => stam::OffsetMode::EndEnd,
        }
    }
    /// the cursors that express the range b..e within a text of length len (offset base 0) in this mode
    pub fn express(&self, b: usize, e: usize, len: usize) -> (Cur, Cur) {
        let eb = Cur::E(b as isize - len as isize);
        let ee = Cur::E(e as isize - len as isize);
        match self {
            Mode::BB => (Cur::B(b), Cur::B(e)),
            Mode::BE => (Cur::B(b), ee),
            Mode::EB => (eb, Cur::B(e)),
            Mode::EE => (eb, ee),
        }
    }
}

#[derive(Clone, Debug, PartialEq)]
pub struct MRes {
    pub id: String,
    pub text: Vec<char>,
    pub live: bool,
    pub handle: usize,
    /// known text selections (they outlive their annotations), in allocation order
    pub sels: Vec<(usize, usize)>,
}

#[derive(Clone, Debug, PartialEq)]
pub struct MKey {
    pub id: String,
    pub live: bool,
    pub handle: usize,
}

#[derive(Clone, Debug, PartialEq)]
pub struct MData {
    pub id: Option<String>,
    pub key: usize,
    pub value: Val,
    pub live: bool,
    pub handle: usize,
}

#[derive(Clone, Debug, PartialEq)]
pub struct MSet {
    pub id: String,
    pub live: bool,
    pub handle: usize,
    pub keys: Vec<MKey>,
    pub data: Vec<MData>,
    /// number of slots allocated in the library's key store / data store
    pub key_slots: usize,
    pub data_slots: usize,
}

/// Absolute text target
#[derive(Clone, Copy, Debug, PartialEq, Eq, PartialOrd, Ord)]
pub struct TextT {
    pub res: Uid,
    pub b: usize,
    pub e: usize,
    pub mode: Mode,
}

#[derive(Clone, Debug, PartialEq)]
pub enum MSel {
    Text(TextT),
    Res(Uid),
    Set(Uid),
    Key(Uid, usize),
    Data(Uid, usize),
    Ann { a: Uid, text: Option<TextT> },
    Multi(Vec<MSel>),
    Composite(Vec<MSel>),
    Directional(Vec<MSel>),
}

impl MSel {
    pub fn kind(&self) -> &'static str {
        match self {
            MSel::Text(_) => "TextSelector",
            MSel::Res(_) => "ResourceSelector",
            MSel::Set(_) => "DataSetSelector",
            MSel::Key(..) => "DataKeySelector",
            MSel::Data(..) => "AnnotationDataSelector",
            MSel::Ann { .. } => "AnnotationSelector",
            MSel::Multi(_) => "MultiSelector",
            MSel::Composite(_) => "CompositeSelector",
            MSel::Directional(_) => "DirectionalSelector",
        }
    }
    pub fn is_complex(&self) -> bool {
        matches!(self, MSel::Multi(_) | MSel::Composite(_) | MSel::Directional(_))
    }
    /// the simple selectors: self if simple, else the sub-selectors
    pub fn leaves(&self) -> Vec<&MSel> {
        match self {
            MSel::Multi(v) | MSel::Composite(v) | MSel::Directional(v) => v.iter().collect(),
            x => vec![x],
        }
    }
    pub fn text_target(&self) -> Option<TextT> {
        match self {
            MSel::Text(t) => Some(*t),
            MSel::Ann { text: Some(t), .. } => Some(*t),
            _ => None,
        }
    }
}

/// equality of targets as the library sees it: member order is irrelevant in Multi/CompositeSelectors
pub fn msel_same(a: &MSel, b: &MSel) -> bool {
    match (a, b) {
        (MSel::Multi(x), MSel::Multi(y)) | (MSel::Composite(x), MSel::Composite(y)) => {
            if x.len() != y.len() {
                return false;
            }
            let mut used = vec![false; y.len()];
            for m in x.iter() {
                match (0..y.len()).find(|j| !used[*j] && &y[*j] == m) {
                    Some(j) => used[j] = true,
                    None => return false,
                }
            }
            true
        }
        _ => a == b,
    }
}

#[derive(Clone, Debug, PartialEq)]
pub struct MAnn {
    pub id: Option<String>,
    pub live: bool,
    pub handle: usize,
    pub target: MSel,
    pub data: Vec<(Uid, usize)>,
}

#[derive(Clone, Debug, PartialEq, Default)]
pub struct Model {
    pub resources: Vec<MRes>,
    pub datasets: Vec<MSet>,
    pub annotations: Vec<MAnn>,
    /// number of slots allocated in the library's stores (next handle)
    pub res_slots: usize,
    pub set_slots: usize,
    pub ann_slots: usize,
}

/// What a reference denotes, and how to hand it to the library
#[derive(Clone, Debug, PartialEq)]
pub struct Target {
    /// the live item the reference denotes according to the model (None = must not resolve)
    pub uid: Option<usize>,
    pub req: Req,
}

#[derive(Clone, Debug, PartialEq)]
pub enum Req {
    Id(String),
    Handle(usize),
}

#[derive(Clone, Debug, PartialEq)]
pub enum Outcome {
    /// must succeed; for creations the handle the new (or pre-existing) item must have
    Ok { handle: Option<usize> },
    /// must be refused with an error, store unchanged
    Err,
    /// the item to remove does not exist: return value is don't-care, store must be unchanged
    NoopEither,
    /// behaviour unspecified: the step is not executed
    Skip,
}

#[derive(Clone, Debug, Default)]
pub struct Effects {
    /// annotations removed by this step (uids)
    pub removed_annotations: Vec<Uid>,
    pub cascade_depth: usize,
    pub created_selections: usize,
    pub dedup_hits: usize,
    pub created_datasets: usize,
    pub created_keys: usize,
    pub range_compressible: bool,
    pub nonstrict_survivors: usize,
}

pub const GHOST_ID: &str = "ghost-item-that-never-existed";
pub const GHOST_HANDLE: usize = 9999;

impl Model {
    pub fn new() -> Self {
        Self::default()
    }

    // ---------------------------------------------------------------- reference resolution

    pub fn res_target(&self, r: &Ref) -> Target {
        if self.resources.is_empty() || r.idx == usize::MAX {
            return ghost(r);
        }
        let cand = r.idx % self.resources.len();
        let item = &self.resources[cand];
        match r.by {
            By::Id => {
                let uid = self.find_resource_by_id(&item.id);
                Target {
                    uid,
                    req: Req::Id(item.id.clone()),
                }
            }
            By::Handle | By::Temp => {
                let uid = self
                    .resources
                    .iter()
                    .position(|x| x.live && x.handle == item.handle);
                Target {
                    uid,
                    req: if r.by == By::Temp { Req::Id(format!("!R{}", item.handle)) } else { Req::Handle(item.handle) },
                }
            }
        }
    }

    pub fn set_target(&self, r: &Ref) -> Target {
        if self.datasets.is_empty() || r.idx == usize::MAX {
            return ghost(r);
        }
        let cand = r.idx % self.datasets.len();
        let item = &self.datasets[cand];
        match r.by {
            By::Id => Target {
                uid: self.find_dataset_by_id(&item.id),
                req: Req::Id(item.id.clone()),
            },
            By::Handle | By::Temp => Target {
                uid: self
                    .datasets
                    .iter()
                    .position(|x| x.live && x.handle == item.handle),
                req: if r.by == By::Temp { Req::Id(format!("!S{}", item.handle)) } else { Req::Handle(item.handle) },
            },
        }
    }

    pub fn ann_target(&self, r: &Ref) -> Target {
        if self.annotations.is_empty() || r.idx == usize::MAX {
            return ghost(r);
        }
        let cand = r.idx % self.annotations.len();
        let item = &self.annotations[cand];
        match (&r.by, &item.id) {
            (By::Id, Some(id)) => Target {
                uid: self.find_annotation_by_id(id),
                req: Req::Id(id.clone()),
            },
            _ => Target {
                uid: self
                    .annotations
                    .iter()
                    .position(|x| x.live && x.handle == item.handle),
                req: if r.by == By::Temp { Req::Id(format!("!A{}", item.handle)) } else { Req::Handle(item.handle) },
            },
        }
    }

    /// key reference within a (live) set given by uid
    pub fn key_target(&self, set: Uid, r: &Ref) -> Target {
        let s = &self.datasets[set];
        if s.keys.is_empty() || r.idx == usize::MAX {
            return ghost(r);
        }
        let cand = r.idx % s.keys.len();
        let item = &s.keys[cand];
        match r.by {
            By::Id => Target {
                uid: s.keys.iter().position(|k| k.live && k.id == item.id),
                req: Req::Id(item.id.clone()),
            },
            By::Handle | By::Temp => Target {
                uid: s
                    .keys
                    .iter()
                    .position(|k| k.live && k.handle == item.handle),
                req: if r.by == By::Temp { Req::Id(format!("!K{}", item.handle)) } else { Req::Handle(item.handle) },
            },
        }
    }

    pub fn data_target(&self, set: Uid, r: &Ref) -> Target {
        let s = &self.datasets[set];
        if s.data.is_empty() || r.idx == usize::MAX {
            return ghost(r);
        }
        let cand = r.idx % s.data.len();
        let item = &s.data[cand];
        match (&r.by, &item.id) {
            (By::Id, Some(id)) => Target {
                uid: s
                    .data
                    .iter()
                    .position(|d| d.live && d.id.as_deref() == Some(id.as_str())),
                req: Req::Id(id.clone()),
            },
            _ => Target {
                uid: s
                    .data
                    .iter()
                    .position(|d| d.live && d.handle == item.handle),
                req: if r.by == By::Temp { Req::Id(format!("!D{}", item.handle)) } else { Req::Handle(item.handle) },
            },
        }
    }

    pub fn find_resource_by_id(&self, id: &str) -> Option<Uid> {
        self.resources.iter().position(|x| x.live && x.id == id)
    }
    pub fn find_dataset_by_id(&self, id: &str) -> Option<Uid> {
        self.datasets.iter().position(|x| x.live && x.id == id)
    }
    pub fn find_annotation_by_id(&self, id: &str) -> Option<Uid> {
        self.annotations
            .iter()
            .position(|x| x.live && x.id.as_deref() == Some(id))
    }

    // ---------------------------------------------------------------- queries used by oracles

    pub fn live_annotations(&self) -> impl Iterator<Item = (Uid, &MAnn)> {
        self.annotations.iter().enumerate().filter(|(_, a)| a.live)
    }

    /// single text selection of an annotation's own target (None for complex and non-text targets)
    pub fn single_text(&self, a: Uid) -> Option<TextT> {
        self.annotations[a].target.text_target()
    }

    /// text targets of an annotation in the order the library promises: textual order for
    /// Multi/Composite, given order for Directional
    pub fn ann_text_targets(&self, a: Uid) -> Vec<TextT> {
        let ann = &self.annotations[a];
        let mut v: Vec<TextT> = ann
            .target
            .leaves()
            .into_iter()
            .filter_map(|s| s.text_target())
            .collect();
        match ann.target {
            MSel::Multi(_) | MSel::Composite(_) => {
                v.sort_by_key(|t| (self.resources[t.res].handle, t.b, t.e));
            }
            _ => {}
        }
        v
    }

    pub fn text_of(&self, t: &TextT) -> String {
        self.resources[t.res].text[t.b..t.e].iter().collect()
    }

    /// annotations directly targeted (one level), in stored order of sub-selectors
    pub fn ann_direct_annotation_targets(&self, a: Uid) -> Vec<Uid> {
        self.annotations[a]
            .target
            .leaves()
            .into_iter()
            .filter_map(|s| match s {
                MSel::Ann { a, .. } => Some(*a),
                _ => None,
            })
            .collect()
    }

    /// live annotations b that have a sub-selector AnnotationSelector(a, _)
    pub fn annotations_on_annotation(&self, a: Uid) -> Vec<Uid> {
        let mut v = Vec::new();
        for (b, ann) in self.live_annotations() {
            for leaf in ann.target.leaves() {
                if let MSel::Ann { a: x, .. } = leaf {
                    if *x == a && !v.contains(&b) {
                        // once, however many members name it ("none twice")
                        v.push(b);
                    }
                }
            }
        }
        v
    }

    /// live annotations with a text target in resource r (multiset of paths collapsed to set, chronological)
    pub fn annotations_on_resource_text(&self, r: Uid) -> Vec<Uid> {
        let mut v = Vec::new();
        for (b, ann) in self.live_annotations() {
            if ann
                .target
                .leaves()
                .into_iter()
                .any(|l| l.text_target().map(|t| t.res == r).unwrap_or(false))
            {
                v.push(b);
            }
        }
        v
    }

    pub fn annotations_on_resource_meta(&self, r: Uid) -> Vec<Uid> {
        self.scan_leaves(|l| matches!(l, MSel::Res(x) if *x == r))
    }
    pub fn annotations_on_dataset_meta(&self, s: Uid) -> Vec<Uid> {
        self.scan_leaves(|l| matches!(l, MSel::Set(x) if *x == s))
    }
    pub fn annotations_on_key_meta(&self, s: Uid, k: usize) -> Vec<Uid> {
        self.scan_leaves(|l| matches!(l, MSel::Key(x, y) if *x == s && *y == k))
    }
    pub fn annotations_on_data_meta(&self, s: Uid, d: usize) -> Vec<Uid> {
        self.scan_leaves(|l| matches!(l, MSel::Data(x, y) if *x == s && *y == d))
    }
    pub fn annotations_on_selection(&self, r: Uid, b: usize, e: usize) -> Vec<Uid> {
        self.scan_leaves(|l| {
            l.text_target()
                .map(|t| t.res == r && t.b == b && t.e == e)
                .unwrap_or(false)
        })
    }

    /// chronological list of live annotations having a leaf matching pred, each once however many of
    /// its members match ("none twice")
    fn scan_leaves<F: Fn(&MSel) -> bool>(&self, pred: F) -> Vec<Uid> {
        let mut v = Vec::new();
        for (b, ann) in self.live_annotations() {
            if ann.target.leaves().into_iter().any(|leaf| pred(leaf)) {
                v.push(b);
            }
        }
        v
    }

    pub fn annotations_with_data(&self, s: Uid, d: usize) -> Vec<Uid> {
        let mut v = Vec::new();
        for (b, ann) in self.live_annotations() {
            for (ss, dd) in ann.data.iter() {
                if *ss == s && *dd == d {
                    v.push(b);
                }
            }
        }
        v
    }

    /// live annotations with at least one data item of key k (each once, chronological)
    pub fn annotations_with_key(&self, s: Uid, k: usize) -> Vec<Uid> {
        let mut v = Vec::new();
        for (b, ann) in self.live_annotations() {
            if ann
                .data
                .iter()
                .any(|(ss, dd)| *ss == s && self.datasets[s].data[*dd].key == k)
            {
                v.push(b);
            }
        }
        v
    }

    pub fn known_selections_sorted(&self, r: Uid) -> Vec<(usize, usize)> {
        let mut v = self.resources[r].sels.clone();
        v.sort();
        v.dedup();
        v
    }

    /// cheap fingerprint of the model state (for the distinctness measure)
    pub fn fingerprint(&self) -> u64 {
        let mut h: u64 = 0xcbf29ce484222325;
        let mut mix = |x: u64| {
            h ^= x;
            h = h.wrapping_mul(0x100000001b3);
        };
        for r in &self.resources {
            mix(r.live as u64 + 2 * r.text.len() as u64 + 1000 * r.sels.len() as u64);
            for (b, e) in &r.sels {
                mix((*b as u64) << 16 | *e as u64);
            }
        }
        for s in &self.datasets {
            mix(7 + s.live as u64);
            for k in &s.keys {
                mix(11 + k.live as u64);
            }
            for d in &s.data {
                mix(13 + d.live as u64 + 4 * d.key as u64 + 64 * d.id.is_some() as u64);
            }
        }
        for a in &self.annotations {
            mix(17 + a.live as u64 + 2 * a.id.is_some() as u64);
            mix(crate::rng::label_hash(a.target.kind()));
            for leaf in a.target.leaves() {
                mix(crate::rng::label_hash(leaf.kind()));
                if let Some(t) = leaf.text_target() {
                    mix((t.res as u64) << 40 | (t.b as u64) << 20 | t.e as u64);
                }
                if let MSel::Ann { a, .. } = leaf {
                    mix(*a as u64 + 99);
                }
            }
            for (s, d) in &a.data {
                mix((*s as u64) << 20 | *d as u64);
            }
        }
        h
    }

    // ---------------------------------------------------------------- transitions

    /// Applies an operation. On `Err`/`NoopEither`/`Skip` the model is unchanged.
    pub fn apply(&mut self, op: &Op) -> (Outcome, Effects) {
        let backup = self.clone();
        let mut fx = Effects::default();
        let outcome = self.apply_inner(op, &mut fx);
        match outcome {
            Outcome::Ok { .. } => {}
            _ => {
                *self = backup;
            }
        }
        (outcome, fx)
    }

    /// Applies an operation the way a non-atomic implementation would: the effects of the stages
    /// that succeeded before the failing one are kept. Only used to recognise request shapes
    /// covered by a listed finding (quarantine), never as an oracle.
    pub fn apply_sequential(&mut self, op: &Op) -> Outcome {
        let mut fx = Effects::default();
        self.apply_inner(op, &mut fx)
    }

    fn apply_inner(&mut self, op: &Op, fx: &mut Effects) -> Outcome {
        match op {
            Op::AddResource { id, text, .. } => {
                if id.starts_with('!') || id.is_empty() {
                    return Outcome::Skip;
                }
                if let Some(uid) = self.find_resource_by_id(id) {
                    let existing = &self.resources[uid];
                    let same: String = existing.text.iter().collect();
                    if &same == text {
                        return Outcome::Ok {
                            handle: Some(existing.handle),
                        };
                    } else {
                        return Outcome::Err;
                    }
                }
                let handle = self.res_slots;
                self.res_slots += 1;
                self.resources.push(MRes {
                    id: id.clone(),
                    text: text.chars().collect(),
                    live: true,
                    handle,
                    sels: Vec::new(),
                });
                Outcome::Ok {
                    handle: Some(handle),
                }
            }
            Op::AddDataset { id, keys, data } => {
                if id.starts_with('!') || id.is_empty() {
                    return Outcome::Skip;
                }
                // build the candidate set exactly as the builder would
                let mut cand = MSet {
                    id: id.clone(),
                    live: true,
                    handle: self.set_slots,
                    keys: Vec::new(),
                    data: Vec::new(),
                    key_slots: 0,
                    data_slots: 0,
                };
                if !keys.is_empty() {
                    // with_key() without a value: whether this also creates a Null data item is unspecified
                    return Outcome::Skip;
                }
                for (did, key, value) in data {
                    if key.is_empty() || key.starts_with('!') {
                        return Outcome::Skip;
                    }
                    if let Some(did) = did {
                        if did.starts_with('!') || did.is_empty() {
                            return Outcome::Skip;
                        }
                    }
                    if insert_data_into(&mut cand, did, &Some(key.clone()), value, fx).is_err() {
                        return Outcome::Err;
                    }
                }
                if let Some(uid) = self.find_dataset_by_id(id) {
                    // identical re-insertion returns the existing handle, anything else is refused
                    let existing = &self.datasets[uid];
                    if sets_identical(existing, &cand) {
                        return Outcome::Ok {
                            handle: Some(existing.handle),
                        };
                    }
                    return Outcome::Err;
                }
                self.set_slots += 1;
                let h = cand.handle;
                self.datasets.push(cand);
                fx.created_datasets += 1;
                Outcome::Ok { handle: Some(h) }
            }
            Op::AddKey { s, key } => {
                if key.is_empty() || key.starts_with('!') {
                    return Outcome::Skip;
                }
                let Some(uid) = self.set_target(s).uid else { return Outcome::Err };
                let set = &mut self.datasets[uid];
                if let Some(k) = set.keys.iter().find(|k| k.live && &k.id == key) {
                    // an identical item is not inserted twice: the existing handle is returned
                    return Outcome::Ok { handle: Some(k.handle) };
                }
                let handle = set.key_slots;
                set.key_slots += 1;
                set.keys.push(MKey { id: key.clone(), live: true, handle });
                Outcome::Ok { handle: Some(handle) }
            }
            Op::InsertData {
                set,
                id,
                key,
                value,
            } => {
                if key.is_empty() || key.starts_with('!') {
                    return Outcome::Skip;
                }
                if let Some(id) = id {
                    if id.starts_with('!') || id.is_empty() {
                        return Outcome::Skip;
                    }
                }
                let spec = DataSpec::New {
                    set: set.clone(),
                    key: key.clone(),
                    value: value.clone(),
                    id: id.clone(),
                };
                match self.apply_dataspec(&spec, fx) {
                    Ok(Some((s, d))) => Outcome::Ok {
                        handle: Some(self.datasets[s].data[d].handle),
                    },
                    Ok(None) => Outcome::Skip,
                    Err(()) => Outcome::Err,
                }
            }
            Op::Annotate { id, target, data } => match self.annotate(id, target, data, fx) {
                Ok(Some(h)) => Outcome::Ok { handle: Some(h) },
                Ok(None) => Outcome::Skip,
                Err(()) => Outcome::Err,
            },
            Op::AnnotateBatch { items } => {
                // atomic semantics per C14: the batch either applies completely or not at all
                let mut last = None;
                for (id, target, data) in items {
                    match self.annotate(id, target, data, fx) {
                        Ok(Some(h)) => last = Some(h),
                        Ok(None) => return Outcome::Skip,
                        Err(()) => return Outcome::Err,
                    }
                }
                Outcome::Ok { handle: last }
            }
            Op::AnnotateFile { items, fault } => {
                // only files whose elements are all valid requests: an invalid *request* inside a file is the
                // listed non-atomic batch finding, what is decided here is a fault of the file itself
                let valid_upto = if *fault == FileFault::None { items.len() } else { items.len().saturating_sub(1) };
                if *fault != FileFault::None && items.len() < 2 {
                    return Outcome::Skip;
                }
                let mut probe = self.clone();
                let mut pfx = Effects::default();
                let mut last = None;
                for (id, target, data) in items.iter().take(valid_upto) {
                    match probe.annotate(id, target, data, &mut pfx) {
                        Ok(Some(h)) => last = Some(h),
                        _ => return Outcome::Skip,
                    }
                }
                if *fault != FileFault::None {
                    // the file is not a list of annotations: nothing may be added
                    return Outcome::Err;
                }
                *self = probe;
                fx.created_datasets += pfx.created_datasets;
                fx.dedup_hits += pfx.dedup_hits;
                Outcome::Ok { handle: last }
            }
            Op::RemoveAnnotation { a } => {
                let t = self.ann_target(a);
                match t.uid {
                    None => Outcome::NoopEither,
                    Some(uid) => {
                        let mut seed = BTreeSet::new();
                        seed.insert(uid);
                        self.remove_closure(seed, fx);
                        Outcome::Ok { handle: None }
                    }
                }
            }
            Op::RemoveAnnotationsOn { r } => {
                let t = self.res_target(r);
                match t.uid {
                    None => Outcome::Err,
                    Some(uid) => {
                        let seed: BTreeSet<Uid> = self.annotations_on_resource_text(uid).into_iter().collect();
                        self.remove_closure(seed, fx);
                        Outcome::Ok { handle: None }
                    }
                }
            }
            Op::RemoveResource { r } => {
                let t = self.res_target(r);
                match t.uid {
                    None => Outcome::NoopEither,
                    Some(uid) => {
                        let seed: BTreeSet<Uid> = self
                            .live_annotations()
                            .filter(|(_, ann)| {
                                ann.target.leaves().into_iter().any(|l| match l {
                                    MSel::Res(x) => *x == uid,
                                    other => other
                                        .text_target()
                                        .map(|t| t.res == uid)
                                        .unwrap_or(false),
                                })
                            })
                            .map(|(a, _)| a)
                            .collect();
                        self.remove_closure(seed, fx);
                        self.resources[uid].live = false;
                        Outcome::Ok { handle: None }
                    }
                }
            }
            Op::RemoveDataset { s } => {
                let t = self.set_target(s);
                match t.uid {
                    None => Outcome::NoopEither,
                    Some(uid) => {
                        let seed: BTreeSet<Uid> = self
                            .live_annotations()
                            .filter(|(_, ann)| {
                                ann.data.iter().any(|(s, _)| *s == uid)
                                    || ann.target.leaves().into_iter().any(|l| match l {
                                        MSel::Set(x) => *x == uid,
                                        MSel::Key(x, _) => *x == uid,
                                        MSel::Data(x, _) => *x == uid,
                                        _ => false,
                                    })
                            })
                            .map(|(a, _)| a)
                            .collect();
                        self.remove_closure(seed, fx);
                        let set = &mut self.datasets[uid];
                        set.live = false;
                        for k in set.keys.iter_mut() {
                            k.live = false;
                        }
                        for d in set.data.iter_mut() {
                            d.live = false;
                        }
                        Outcome::Ok { handle: None }
                    }
                }
            }
            Op::RemoveData { s, d, strict } => {
                let ts = self.set_target(s);
                let Some(set) = ts.uid else {
                    return Outcome::NoopEither;
                };
                let td = self.data_target(set, d);
                let Some(data) = td.uid else {
                    return Outcome::NoopEither;
                };
                self.remove_data(set, data, *strict, fx);
                Outcome::Ok { handle: None }
            }
            Op::RemoveKey { s, k, strict } => {
                let ts = self.set_target(s);
                let Some(set) = ts.uid else {
                    return Outcome::NoopEither;
                };
                let tk = self.key_target(set, k);
                let Some(key) = tk.uid else {
                    return Outcome::NoopEither;
                };
                let datas: Vec<usize> = self.datasets[set]
                    .data
                    .iter()
                    .enumerate()
                    .filter(|(_, d)| d.live && d.key == key)
                    .map(|(i, _)| i)
                    .collect();
                for d in datas {
                    if self.datasets[set].data[d].live {
                        self.remove_data(set, d, *strict, fx);
                    }
                }
                let seed: BTreeSet<Uid> = self
                    .annotations_on_key_meta(set, key)
                    .into_iter()
                    .collect();
                self.remove_closure(seed, fx);
                self.datasets[set].keys[key].live = false;
                Outcome::Ok { handle: None }
            }
            Op::ProtectText { mode } => {
                self.protect_text(*mode, fx);
                Outcome::Ok { handle: None }
            }
            Op::StripAnnotationIds => {
                for a in self.annotations.iter_mut() {
                    if a.live {
                        a.id = None;
                    }
                }
                Outcome::Ok { handle: None }
            }
            Op::StripDataIds => {
                for s in self.datasets.iter_mut() {
                    if s.live {
                        for d in s.data.iter_mut() {
                            if d.live {
                                d.id = None;
                            }
                        }
                    }
                }
                Outcome::Ok { handle: None }
            }
            Op::Reindex => {
                // live annotations, resources and datasets are renumbered densely, in order
                let mut next = 0;
                for a in self.annotations.iter_mut().filter(|a| a.live) {
                    a.handle = next;
                    next += 1;
                }
                self.ann_slots = next;
                let mut next = 0;
                for r in self.resources.iter_mut().filter(|r| r.live) {
                    r.handle = next;
                    next += 1;
                }
                self.res_slots = next;
                let mut next = 0;
                for s in self.datasets.iter_mut().filter(|s| s.live) {
                    s.handle = next;
                    next += 1;
                }
                self.set_slots = next;
                Outcome::Ok { handle: None }
            }
            Op::Restart { .. } | Op::Checkpoint { .. } => Outcome::Ok { handle: None },
        }
    }

    fn remove_data(&mut self, set: Uid, data: usize, strict: bool, fx: &mut Effects) {
        let mut seed: BTreeSet<Uid> = BTreeSet::new();
        let users: Vec<Uid> = self.annotations_with_data(set, data);
        for a in users {
            if strict {
                seed.insert(a);
            } else {
                let ann = &mut self.annotations[a];
                let pre = ann.data.len();
                ann.data.retain(|(s, d)| !(*s == set && *d == data));
                if ann.data.is_empty() && pre > 0 {
                    seed.insert(a);
                } else {
                    fx.nonstrict_survivors += 1;
                }
            }
        }
        for a in self.annotations_on_data_meta(set, data) {
            seed.insert(a);
        }
        self.remove_closure(seed, fx);
        self.datasets[set].data[data].live = false;
    }

    /// removes the seed annotations and everything that depends on them through annotation selectors
    fn remove_closure(&mut self, seed: BTreeSet<Uid>, fx: &mut Effects) {
        let mut gone: BTreeSet<Uid> = seed.into_iter().filter(|a| self.annotations[*a].live).collect();
        let mut depth = 0;
        loop {
            let mut added = false;
            for (b, ann) in self.annotations.iter().enumerate() {
                if !ann.live || gone.contains(&b) {
                    continue;
                }
                let dep = ann.target.leaves().into_iter().any(|l| match l {
                    MSel::Ann { a, .. } => gone.contains(a),
                    _ => false,
                });
                if dep {
                    gone.insert(b);
                    added = true;
                }
            }
            if !added {
                break;
            }
            depth += 1;
        }
        fx.cascade_depth = fx.cascade_depth.max(depth);
        for a in gone {
            self.annotations[a].live = false;
            fx.removed_annotations.push(a);
        }
    }

    fn protect_text(&mut self, mode: ProtectMode, fx: &mut Effects) {
        let mut q_checksum: Vec<(Uid, String)> = Vec::new();
        let mut q_text: Vec<(Uid, String)> = Vec::new();
        let vset = self.find_dataset_by_id(TEXTVALIDATION_SET);
        let live: Vec<Uid> = self.live_annotations().map(|(a, _)| a).collect();
        for a in live {
            let targets = self.ann_text_targets(a);
            let textlen: usize = targets.iter().map(|t| t.e - t.b).sum();
            let (do_checksum, do_text) = match mode {
                ProtectMode::Checksum => (true, false),
                ProtectMode::Text => (false, true),
                ProtectMode::Both => (true, true),
                ProtectMode::Auto => {
                    if textlen < 40 {
                        (false, true)
                    } else {
                        (true, false)
                    }
                }
            };
            let has_key = |m: &Model, keyid: &str| -> bool {
                if let Some(vs) = vset {
                    m.annotations[a].data.iter().any(|(s, d)| {
                        *s == vs && {
                            let set = &m.datasets[vs];
                            set.keys[set.data[*d].key].id == keyid
                                && matches!(set.data[*d].value, Val::Str(_))
                        }
                    })
                } else {
                    false
                }
            };
            let joined: String = targets.iter().map(|t| self.text_of(t)).collect();
            if do_checksum && !has_key(self, "checksum") && !joined.is_empty() {
                q_checksum.push((a, sha1_hex(&joined)));
            }
            if do_text && !has_key(self, "text") && !joined.is_empty() {
                q_text.push((a, joined));
            }
        }
        let vs = match vset {
            Some(v) => v,
            None => {
                let handle = self.set_slots;
                self.set_slots += 1;
                self.datasets.push(MSet {
                    id: TEXTVALIDATION_SET.to_string(),
                    live: true,
                    handle,
                    keys: Vec::new(),
                    data: Vec::new(),
                    key_slots: 0,
                    data_slots: 0,
                });
                fx.created_datasets += 1;
                self.datasets.len() - 1
            }
        };
        for (a, checksum) in q_checksum {
            let d = insert_data_into(
                &mut self.datasets[vs],
                &None,
                &Some("checksum".to_string()),
                &Val::Str(checksum),
                fx,
            )
            .expect("insertion of validation data cannot fail in the model");
            self.annotations[a].data.push((vs, d));
        }
        for (a, text) in q_text {
            let d = insert_data_into(
                &mut self.datasets[vs],
                &None,
                &Some("text".to_string()),
                &Val::Str(text),
                fx,
            )
            .expect("insertion of validation data cannot fail in the model");
            self.annotations[a].data.push((vs, d));
        }
    }

    /// Ok(Some(handle)) / Ok(None) = unspecified, skip / Err = must be refused
    fn annotate(
        &mut self,
        id: &Option<String>,
        target: &Sel,
        data: &[DataSpec],
        fx: &mut Effects,
    ) -> Result<Option<usize>, ()> {
        if let Some(id) = id {
            if id.starts_with('!') || id.is_empty() {
                return Ok(None);
            }
        }
        let msel = match self.resolve_sel(target, true, fx)? {
            Some(s) => s,
            None => return Ok(None),
        };
        // unspecified: two paths to the same direct target within one annotation
        {
            let leaves = msel.leaves();
            for i in 0..leaves.len() {
                for j in (i + 1)..leaves.len() {
                    let same = match (leaves[i], leaves[j]) {
                        (MSel::Ann { a, text: t }, MSel::Ann { a: b, text: u }) => {
                            // the same annotation named twice is a legitimate shape (two parts of it: a
                            // discontinuous unit): reverse look-ups must then list the annotation once.
                            // Only the same *span* twice stays unspecified.
                            match (t, u) {
                                (Some(t), Some(u)) => t.res == u.res && t.b == u.b && t.e == u.e,
                                (None, None) => a == b,
                                _ => false,
                            }
                        }
                        (x, y) => {
                            x == y
                                || match (x.text_target(), y.text_target()) {
                                    (Some(t), Some(u)) => t.res == u.res && t.b == u.b && t.e == u.e,
                                    _ => false,
                                }
                        }
                    };
                    if same {
                        return Ok(None);
                    }
                }
            }
        }
        let mut mdata: Vec<(Uid, usize)> = Vec::new();
        for spec in data {
            match self.apply_dataspec(spec, fx)? {
                Some(sd) => {
                    if mdata.contains(&sd) {
                        // the same data item offered twice: the annotation carries it once
                        continue;
                    }
                    mdata.push(sd)
                }
                None => return Ok(None),
            }
        }
        if let Some(id) = id {
            if let Some(uid) = self.find_annotation_by_id(id) {
                let existing = &self.annotations[uid];
                // an identical item is not inserted twice (the existing handle is returned); the members of a
                // Multi/CompositeSelector are kept in a canonical order, so their given order does not matter
                if msel_same(&existing.target, &msel) && existing.data == mdata {
                    return Ok(Some(existing.handle));
                }
                return Err(());
            }
        }
        let handle = self.ann_slots;
        self.ann_slots += 1;
        self.annotations.push(MAnn {
            id: id.clone(),
            live: true,
            handle,
            target: msel,
            data: mdata,
        });
        Ok(Some(handle))
    }

    /// Ok(Some) resolved / Ok(None) unspecified / Err must be refused
    fn resolve_sel(&mut self, sel: &Sel, top: bool, fx: &mut Effects) -> Result<Option<MSel>, ()> {
        match sel {
            Sel::Missing => Err(()),
            Sel::Text { r, b, e } => {
                let t = self.res_target(r);
                let uid = t.uid.ok_or(())?;
                if matches!(b, Cur::E(x) if *x > 0) || matches!(e, Cur::E(x) if *x > 0) {
                    return Ok(None); // positive end-aligned cursor on input: unspecified
                }
                let len = self.resources[uid].text.len();
                let bb = b.resolve(len).ok_or(())?;
                let ee = e.resolve(len).ok_or(())?;
                if bb > ee {
                    return Err(());
                }
                self.register_sel(uid, bb, ee, fx);
                Ok(Some(MSel::Text(TextT {
                    res: uid,
                    b: bb,
                    e: ee,
                    mode: Mode::of(b, e),
                })))
            }
            Sel::Resource { r } => {
                let t = self.res_target(r);
                Ok(Some(MSel::Res(t.uid.ok_or(())?)))
            }
            Sel::DataSet { s } => {
                let t = self.set_target(s);
                Ok(Some(MSel::Set(t.uid.ok_or(())?)))
            }
            Sel::Key { s, k } => {
                let t = self.set_target(s);
                let set = t.uid.ok_or(())?;
                let tk = self.key_target(set, k);
                Ok(Some(MSel::Key(set, tk.uid.ok_or(())?)))
            }
            Sel::Data { s, d } => {
                let t = self.set_target(s);
                let set = t.uid.ok_or(())?;
                let td = self.data_target(set, d);
                Ok(Some(MSel::Data(set, td.uid.ok_or(())?)))
            }
            Sel::Annotation { a, offset } => {
                let t = self.ann_target(a);
                let uid = t.uid.ok_or(())?;
                match offset {
                    None => Ok(Some(MSel::Ann { a: uid, text: None })),
                    Some((b, e)) => {
                        let Some(parent) = self.single_text(uid) else {
                            // relative offset against an annotation without a single text selection: unspecified
                            return Ok(None);
                        };
                        if matches!(b, Cur::E(x) if *x > 0) || matches!(e, Cur::E(x) if *x > 0) {
                            return Ok(None);
                        }
                        let plen = parent.e - parent.b;
                        let bb = b.resolve(plen).ok_or(())?;
                        let ee = e.resolve(plen).ok_or(())?;
                        if bb > ee {
                            return Err(());
                        }
                        let (ab, ae) = (parent.b + bb, parent.b + ee);
                        self.register_sel(parent.res, ab, ae, fx);
                        Ok(Some(MSel::Ann {
                            a: uid,
                            text: Some(TextT {
                                res: parent.res,
                                b: ab,
                                e: ae,
                                mode: Mode::of(b, e),
                            }),
                        }))
                    }
                }
            }
            Sel::Multi(v) | Sel::Composite(v) | Sel::Directional(v) => {
                if !top {
                    return Err(()); // nested complex selectors are refused
                }
                if v.is_empty() {
                    return Ok(None); // empty complex selector: unspecified
                }
                let mut subs = Vec::new();
                for s in v {
                    if s.is_complex() {
                        return Err(());
                    }
                    match self.resolve_sel(s, false, fx)? {
                        Some(m) => subs.push(m),
                        None => return Ok(None),
                    }
                }
                Ok(Some(match sel {
                    Sel::Multi(_) => MSel::Multi(subs),
                    Sel::Composite(_) => MSel::Composite(subs),
                    _ => MSel::Directional(subs),
                }))
            }
        }
    }

    fn register_sel(&mut self, res: Uid, b: usize, e: usize, fx: &mut Effects) {
        let r = &mut self.resources[res];
        if !r.sels.contains(&(b, e)) {
            r.sels.push((b, e));
            fx.created_selections += 1;
        }
    }

    /// Ok(Some((set uid, data idx))) / Ok(None) unspecified / Err refused
    pub fn apply_dataspec(&mut self, spec: &DataSpec, fx: &mut Effects) -> Result<Option<(Uid, usize)>, ()> {
        match spec {
            DataSpec::New {
                set,
                key,
                value,
                id,
            } => {
                if key.is_empty() || key.starts_with('!') {
                    return Ok(None);
                }
                if let Some(id) = id {
                    if id.starts_with('!') || id.is_empty() {
                        return Ok(None);
                    }
                }
                let set_uid = match set {
                    SetRef::Existing(r) => {
                        let t = self.set_target(r);
                        match (t.uid, &t.req) {
                            (Some(uid), _) => uid,
                            // a missing dataset given by id is created on the fly
                            (None, Req::Id(idstr)) => {
                                if idstr == GHOST_ID {
                                    self.create_dataset(GHOST_ID, fx)
                                } else {
                                    self.create_dataset(idstr, fx)
                                }
                            }
                            // a stale handle: unspecified (the library falls back to a default set)
                            (None, Req::Handle(_)) => return Ok(None),
                        }
                    }
                    SetRef::Literal(idstr) => {
                        if idstr.starts_with('!') || idstr.is_empty() {
                            return Ok(None);
                        }
                        match self.find_dataset_by_id(idstr) {
                            Some(uid) => uid,
                            None => self.create_dataset(idstr, fx),
                        }
                    }
                    SetRef::Unnamed => match self.find_dataset_by_id(crate::ops::DEFAULT_SET) {
                        Some(uid) => uid,
                        None => self.create_dataset(crate::ops::DEFAULT_SET, fx),
                    },
                };
                let d = insert_data_into(
                    &mut self.datasets[set_uid],
                    id,
                    &Some(key.clone()),
                    value,
                    fx,
                )?;
                Ok(Some((set_uid, d)))
            }
            DataSpec::Existing { set, data } => {
                let t = self.set_target(set);
                if t.uid.is_none() {
                    // a non-atomic implementation creates the missing dataset before it notices that
                    // the data cannot be found in it (rolled back by apply(), kept by apply_sequential())
                    match &t.req {
                        Req::Id(idstr) => {
                            self.create_dataset(idstr, fx);
                        }
                        Req::Handle(_) => {
                            if self.find_dataset_by_id("default-annotationset").is_none() {
                                self.create_dataset("default-annotationset", fx);
                            }
                        }
                    }
                }
                let set_uid = t.uid.ok_or(())?;
                let td = self.data_target(set_uid, data);
                let d = td.uid.ok_or(())?;
                Ok(Some((set_uid, d)))
            }
        }
    }

    fn create_dataset(&mut self, id: &str, fx: &mut Effects) -> Uid {
        let handle = self.set_slots;
        self.set_slots += 1;
        self.datasets.push(MSet {
            id: id.to_string(),
            live: true,
            handle,
            keys: Vec::new(),
            data: Vec::new(),
            key_slots: 0,
            data_slots: 0,
        });
        fx.created_datasets += 1;
        self.datasets.len() - 1
    }
}

fn ghost(r: &Ref) -> Target {
    match r.by {
        By::Id => Target {
            uid: None,
            req: Req::Id(GHOST_ID.to_string()),
        },
        By::Handle => Target {
            uid: None,
            req: Req::Handle(GHOST_HANDLE),
        },
        By::Temp => Target {
            uid: None,
            req: Req::Id(format!("!A{}", GHOST_HANDLE)),
        },
    }
}

/// `AnnotationDataSet::insert_data` semantics: an existing id wins; otherwise the key is found or
/// created; an id-less (key, value) that already exists is shared; otherwise a new item.
pub fn insert_data_into(
    set: &mut MSet,
    id: &Option<String>,
    key: &Option<String>,
    value: &Val,
    fx: &mut Effects,
) -> Result<usize, ()> {
    if let Some(id) = id {
        if let Some(d) = set
            .data
            .iter()
            .position(|d| d.live && d.id.as_deref() == Some(id.as_str()))
        {
            return Ok(d);
        }
    }
    let Some(key) = key else {
        return Err(());
    };
    let mut newkey = false;
    let k = match set.keys.iter().position(|k| k.live && &k.id == key) {
        Some(k) => k,
        None => {
            newkey = true;
            let handle = set.key_slots;
            set.key_slots += 1;
            set.keys.push(MKey {
                id: key.clone(),
                live: true,
                handle,
            });
            fx.created_keys += 1;
            set.keys.len() - 1
        }
    };
    if !newkey && id.is_none() {
        let dv = value.to_datavalue();
        if let Some(d) = set
            .data
            .iter()
            .position(|d| d.live && d.key == k && d.value.to_datavalue() == dv)
        {
            fx.dedup_hits += 1;
            return Ok(d);
        }
    }
    let handle = set.data_slots;
    set.data_slots += 1;
    set.data.push(MData {
        id: id.clone(),
        key: k,
        value: value.clone(),
        live: true,
        handle,
    });
    Ok(set.data.len() - 1)
}

/// `PartialEq` of datasets as the library defines it for re-insertion under an existing id:
/// same keys (slot by slot) and same data (slot by slot, every item carrying an id)
fn sets_identical(a: &MSet, b: &MSet) -> bool {
    let slots = |s: &MSet| -> Vec<Option<String>> {
        let mut v: Vec<Option<String>> = vec![None; s.key_slots];
        for k in &s.keys {
            if k.live {
                v[k.handle] = Some(k.id.clone());
            }
        }
        v
    };
    if slots(a) != slots(b) {
        return false;
    }
    let dslots = |s: &MSet| -> Vec<Option<(Option<String>, usize, stam::DataValue)>> {
        let mut v = vec![None; s.data_slots];
        for d in &s.data {
            if d.live {
                v[d.handle] = Some((d.id.clone(), s.keys[d.key].handle, d.value.to_datavalue()));
            }
        }
        v
    };
    let (da, db) = (dslots(a), dslots(b));
    if da.len() != db.len() {
        return false;
    }
    for (x, y) in da.iter().zip(db.iter()) {
        match (x, y) {
            (None, None) => {}
            (Some(x), Some(y)) => {
                if x.0.is_none() || x != y {
                    return false;
                }
            }
            _ => return false,
        }
    }
    true
}

pub fn sha1_hex(s: &str) -> String {
    use sha1::{Digest, Sha1};
    let mut hasher = Sha1::new();
    hasher.update(s.as_bytes());
    let out = hasher.finalize();
    let mut hex = String::new();
    for b in out.iter() {
        hex.push_str(&format!("{:02x}", b));
    }
    hex
}
