//! A world: one real `AnnotationStore` driven in lock-step with the reference model.
//! After every step the oracles run; the first violating step ends the run.

use crate::exec::*;
use crate::gen::*;
use crate::model::*;
use crate::obs::*;
use crate::ops::*;
use crate::restart;
use crate::rng::Rng;
use crate::simfs::SimFs;
use serde::{Deserialize, Serialize};
use stam::*;
use std::collections::BTreeMap;

#[derive(Clone, Debug, Serialize, Deserialize)]
pub struct WorldCfg {
    pub milestone_interval: usize,
    pub shrink_to_fit: bool,
    pub generate_ids: bool,
    /// run the expensive id-pool check every n steps (0 = never)
    pub ids_every: usize,
    /// legal I/O noise (short reads/writes) on restarts
    pub io_noise: bool,
    pub io_eintr: bool,
    /// quarantine for the listed finding "annotate is not atomic": failing requests that would
    /// leave residue behind (selections, datasets, keys, data, earlier batch items) are not executed
    #[serde(default)]
    pub skip_residue: bool,
    /// quarantine for the listed finding "reindex() after removals corrupts the store": when false,
    /// Reindex is not executed on a store that has gaps
    #[serde(default)]
    pub reindex_with_gaps: bool,
    /// evaluate the related-text oracle every n steps (0 = never)
    #[serde(default)]
    pub related_every: usize,
    /// evaluate the codepoint/byte conversion oracle after every step
    #[serde(default)]
    pub conversions: bool,
    /// record knob-sensitive probe answers after every step (compared across replicas)
    #[serde(default)]
    pub probes: bool,
    /// knob replicas (milestone_interval, shrink_to_fit) that must answer exactly like the primary
    #[serde(default)]
    pub replicas: Vec<(usize, bool)>,
    /// which state oracles run after every step (a property's check evaluates the oracles it owns,
    /// so that a foreign defect does not cut its runs short); missing = all
    #[serde(default)]
    pub oracles: Option<Oracles>,
    /// after the last operation: protect/validate round trip with edited stand-off texts (C18)
    #[serde(default)]
    pub validation_phase: bool,
    /// evaluate the query laws (C08) every n steps (0 = never), with at most query_budget evaluations each time
    #[serde(default)]
    pub queries_every: usize,
    #[serde(default)]
    pub query_budget: usize,
    /// shapes that are quarantined because of listed findings, enabled by name ("optional", "indirect",
    /// "multisel"); a finding's replay file carries the flag it needs
    #[serde(default)]
    pub query_flags: Vec<String>,
    /// C08: issue annotate / remove requests as ADD / DELETE queries when they have an equivalent one
    #[serde(default)]
    pub mutate_via_query: bool,
    /// after the last operation: move part of the store into a sub-store, save, reload, save again (C05)
    #[serde(default)]
    pub substore_phase: bool,
    /// C03: at the end of the run a variant of the store's own JSON is merged into a copy of it (c03merge.rs)
    #[serde(default)]
    pub merge_phase: bool,
    /// C12: every restart also changes the performance-only settings (a store written under one
    /// milestone interval / shrink-to-fit is read and used under another)
    #[serde(default)]
    pub restart_changes_knobs: bool,
}

#[derive(Clone, Debug, Serialize, Deserialize, PartialEq)]
pub struct Oracles {
    pub dangling: bool,
    pub dump: bool,
    pub forward: bool,
    pub offsets: bool,
    pub reverse: bool,
    pub data_search: bool,
}

impl Oracles {
    pub fn all() -> Self {
        Oracles { dangling: true, dump: true, forward: true, offsets: true, reverse: true, data_search: true }
    }
    pub fn none() -> Self {
        Oracles { dangling: false, dump: false, forward: false, offsets: false, reverse: false, data_search: false }
    }
}

impl Default for WorldCfg {
    fn default() -> Self {
        WorldCfg {
            milestone_interval: 100,
            shrink_to_fit: true,
            generate_ids: false,
            ids_every: 1,
            io_noise: false,
            io_eintr: false,
            skip_residue: true,
            reindex_with_gaps: false,
            related_every: 0,
            conversions: false,
            probes: false,
            replicas: Vec::new(),
            oracles: None,
            validation_phase: false,
            queries_every: 0,
            query_budget: 0,
            query_flags: Vec::new(),
            mutate_via_query: false,
            substore_phase: false,
            merge_phase: false,
            restart_changes_knobs: false,
        }
    }
}

impl WorldCfg {
    pub fn config(&self) -> Config {
        Config::new()
            .with_milestone_interval(self.milestone_interval)
            .with_shrink_to_fit(self.shrink_to_fit)
            .with_generate_ids(self.generate_ids)
    }
}

#[derive(Clone, Debug, Serialize, Deserialize)]
pub struct Trace {
    pub world: WorldCfg,
    pub ops: Vec<Op>,
}

#[derive(Clone, Debug, Default)]
pub struct RunStats {
    pub steps: usize,
    pub ops_by_kind: BTreeMap<&'static str, usize>,
    pub outcomes: BTreeMap<String, usize>,
    pub probes: BTreeMap<&'static str, usize>,
    pub faults_fired: BTreeMap<&'static str, usize>,
    pub successful_mutations: usize,
    pub removals: usize,
    pub restarts: usize,
    pub invalid_requests: usize,
    pub skipped: usize,
    pub suppressed: usize,
    pub final_fingerprint: u64,
    pub probe_log: Vec<Vec<(String, String)>>,
    pub bigrams: std::collections::BTreeSet<(String, String)>,
}

impl RunStats {
    pub fn probe(&mut self, name: &'static str) {
        *self.probes.entry(name).or_insert(0) += 1;
    }
    pub fn nontrivial(&self) -> bool {
        self.successful_mutations >= 5 && (self.removals + self.restarts + self.invalid_requests) >= 1
    }
}

#[derive(Clone, Debug)]
pub struct RunResult {
    /// violations of the first violating step (empty = clean run)
    pub violations: Vec<Violation>,
    pub step: Option<usize>,
    pub stats: RunStats,
}

pub struct World {
    pub store: AnnotationStore,
    pub model: Model,
    pub fs: SimFs,
    pub cfg: WorldCfg,
    pub id_pool: Vec<String>,
    pub restart_count: usize,
    /// when false the oracles are not evaluated (used to build stores for other engines)
    pub checks: bool,
    /// reach counters of the query laws, moved into the run's statistics after every step
    pub query_probes: BTreeMap<&'static str, usize>,
}

pub fn adversarial_pool() -> Vec<String> {
    [
        "", " ", "!", "!A", "!a0", "!A-1", "!Ω0", "!É1", "!Éa", "!A99999999999999999999", "!A007",
        "!A١٢", "!AA", "!A1x", "!Z0", "!I0", "\u{0}", "𝄞", "a\u{0301}", "!!A0", "! A0",
    ]
    .iter()
    .map(|s| s.to_string())
    .collect()
}

impl World {
    pub fn new(cfg: WorldCfg) -> Self {
        let fs = SimFs::new();
        fs.install();
        World {
            store: AnnotationStore::new(cfg.config()),
            model: Model::new(),
            fs,
            cfg,
            id_pool: adversarial_pool(),
            restart_count: 0,
            checks: true,
            query_probes: BTreeMap::new(),
        }
    }

    /// Executes one step and runs the oracles. Returns the violations of this step.
    pub fn step(&mut self, op: &Op, stats: &mut RunStats, stepno: usize) -> Vec<Violation> {
        *stats.ops_by_kind.entry(op.kind()).or_insert(0) += 1;
        stats.steps += 1;
        let pre = self.model.clone();
        let (expected, fx) = self.model.apply(op);
        if expected == Outcome::Skip {
            stats.skipped += 1;
            *stats.outcomes.entry(format!("{}:skip", op.kind())).or_insert(0) += 1;
            return Vec::new();
        }
        if matches!(op, Op::Reindex) && !self.cfg.reindex_with_gaps {
            let gaps = pre.annotations.iter().any(|a| !a.live)
                || pre.resources.iter().any(|r| !r.live)
                || pre.datasets.iter().any(|s| !s.live);
            if gaps {
                self.model = pre;
                stats.suppressed += 1;
                stats.probe("reindex_with_gaps_suppressed");
                return Vec::new();
            }
        }
        // Listed finding "annotate()/annotate_from_iter() are not atomic": a failing request whose
        // earlier stages succeeded leaves their effects behind. The sequential model says exactly
        // what a non-atomic implementation leaves. Outside the C14 check the run continues on that
        // state (everything is still checked against it); the C14 check reports the finding.
        let mut sequential: Option<Model> = None;
        if expected == Outcome::Err && leaves_residue(&pre, op) {
            stats.probe("failing_request_with_residue");
            let mut seq = pre.clone();
            seq.apply_sequential(op);
            sequential = Some(seq);
        }
        let tolerate_nonatomic = sequential.is_some() && self.cfg.skip_residue;
        // probes
        if fx.cascade_depth >= 2 {
            stats.probe("cascade_depth>=2");
        }
        if fx.cascade_depth >= 1 {
            stats.probe("cascade_depth>=1");
        }
        if fx.dedup_hits > 0 {
            stats.probe("data_dedup_hit");
        }
        if fx.nonstrict_survivors > 0 {
            stats.probe("shared_data_nonstrict_survivor");
        }
        if fx.created_datasets > 0 && !matches!(op, Op::AddDataset { .. }) {
            stats.probe("implicit_dataset_created");
        }
        if let (Op::Annotate { target, .. }, Outcome::Ok { .. }) = (op, &expected) {
            if let Sel::Multi(subs) | Sel::Composite(subs) | Sel::Directional(subs) = target {
                let anns: Vec<usize> = subs.iter().filter_map(|s| if let Sel::Annotation { a, .. } = s { Some(a.idx) } else { None }).collect();
                if anns.iter().enumerate().any(|(i, x)| anns[..i].contains(x)) {
                    stats.probe("complex_selector_names_annotation_twice");
                }
            }
        }
        if let Op::RemoveKey { .. } = op {
            if let Outcome::Ok { .. } = expected {
                stats.probe("remove_key_ok");
            }
        }
        let mut violations: Vec<Violation> = Vec::new();
        let is_restart = matches!(op, Op::Restart { .. } | Op::Checkpoint { .. });
        let is_reindex = matches!(op, Op::Reindex);
        let pre_dump = if matches!(expected, Outcome::Err | Outcome::NoopEither) && !tolerate_nonatomic {
            // make sure nothing is wrong *before* the request that must change nothing, so that
            // whatever differs afterwards is attributable to it
            let saved = self.model.clone();
            self.model = pre.clone();
            let before = if self.checks { self.check_state_opt(stepno, true) } else { Vec::new() };
            self.model = saved;
            if !before.is_empty() {
                return before;
            }
            catch(|| self.store.verif_dump()).ok()
        } else {
            None
        };
        let mut via_query: Option<String> = None;
        let result = if let Op::Restart { format } = op {
            stats.restarts += 1;
            self.restart_count += 1;
            if self.cfg.restart_changes_knobs {
                let all = [0usize, 1, 2, 3, 7, 100];
                let i = all.iter().position(|x| *x == self.cfg.milestone_interval).unwrap_or(0);
                self.cfg.milestone_interval = all[(i + 1 + self.restart_count) % all.len()];
                self.cfg.shrink_to_fit = !self.cfg.shrink_to_fit;
                stats.probe("restart_under_other_knobs");
            }
            let (res, mut v) = restart::restart(self, *format, stats);
            violations.append(&mut v);
            res
        } else if is_reindex {
            let store = std::mem::replace(&mut self.store, AnnotationStore::new(self.cfg.config()));
            match catch(move || store.reindex()) {
                Ok(s) => {
                    self.store = s;
                    ExecResult::Ok(None)
                }
                Err(p) => ExecResult::Panic(p),
            }
        } else if let Op::Checkpoint { format } = op {
            stats.probe("checkpoint_saved_without_reload");
            match format {
                Format::Csv => crate::restart_files::restart_csv_opts(self, stats, true).0,
                Format::JsonInclude => crate::restart_files::checkpoint_json_include(self),
                _ => ExecResult::Ok(None),
            }
        } else if let Op::AnnotateFile { items, fault } = op {
            let path = format!("/sim/batch/step{}.json", stepno);
            match annotations_json(&pre, items, *fault) {
                Some(bytes) => {
                    stats.probe(if *fault == FileFault::None { "annotations_file_loaded" } else { "annotations_file_torn" });
                    self.fs.put(&path, &bytes);
                    let store = &mut self.store;
                    match catch(|| store.annotate_from_file(&path).map(|_| ())) {
                        Ok(Ok(())) => ExecResult::Ok(None),
                        Ok(Err(e)) => ExecResult::Err(format!("{}", e)),
                        Err(p) => ExecResult::Panic(p),
                    }
                }
                None => ExecResult::Err("the requests cannot be written down as a file".to_string()),
            }
        } else {
            // C08: the same request as an ADD / DELETE query, when it has one and must succeed
            let routed = if self.cfg.mutate_via_query && matches!(expected, Outcome::Ok { .. }) {
                crate::c08::exec_via_query(&mut self.store, &pre, op)
            } else {
                None
            };
            match routed {
                Some((text, r)) => {
                    stats.probe("c08.mutation_routed_via_query");
                    via_query = Some(text);
                    r
                }
                None => exec_direct(&mut self.store, &pre, op),
            }
        };
        *stats
            .outcomes
            .entry(format!("{}:{}", op.kind(), result.class()))
            .or_insert(0) += 1;

        // ---- outcome oracle
        let offsets_involved = op_has_offsets(op);
        let removal = op.is_removal();
        match (&expected, &result) {
            (Outcome::Ok { handle }, ExecResult::Ok(got)) => {
                stats.successful_mutations += 1;
                if removal {
                    stats.removals += 1;
                }
                if let (Some(h), Some(g)) = (handle, got) {
                    if h != g && !is_restart {
                        violations.push(Violation::new(
                            "C14",
                            "mismatch",
                            format!("{}.handle", op.kind()),
                            format!("step {}: expected handle {} got {}", stepno, h, g),
                        ));
                    }
                }
            }
            (Outcome::Ok { .. }, ExecResult::Err(e)) => {
                let owner = if removal {
                    "C02"
                } else if is_restart {
                    restart_owner(op)
                } else if offsets_involved {
                    "C04"
                } else {
                    "C01"
                };
                violations.push(Violation::new(
                    owner,
                    "outcome",
                    format!("{}.refused", op.kind()),
                    format!("step {}: valid request refused: {}", stepno, e),
                ));
            }
            (Outcome::Ok { .. }, ExecResult::Panic(p)) => {
                let owner = if removal {
                    "C02"
                } else if is_restart {
                    restart_owner(op)
                } else if offsets_involved {
                    "C04"
                } else {
                    "C01"
                };
                violations.push(Violation::new(
                    owner,
                    "panic",
                    format!("{}.panic", op.kind()),
                    format!("step {}: {}", stepno, normalise_panic(p)),
                ));
            }
            (Outcome::Err, ExecResult::Ok(_)) => {
                stats.invalid_requests += 1;
                let owner = if offsets_involved && invalid_because_of_offset(&pre, op) { "C04" } else { "C14" };
                violations.push(Violation::new(
                    owner,
                    "outcome",
                    format!("{}.accepted", op.kind()),
                    format!("step {}: invalid request accepted", stepno),
                ));
            }
            (Outcome::Err, ExecResult::Err(_)) => {
                stats.invalid_requests += 1;
                stats.probe("invalid_request_refused");
            }
            (Outcome::Err, ExecResult::Panic(p)) => {
                stats.invalid_requests += 1;
                let owner = if offsets_involved && invalid_because_of_offset(&pre, op) { "C04" } else { "C14" };
                violations.push(Violation::new(
                    owner,
                    "panic",
                    format!("{}.panic", op.kind()),
                    format!("step {}: invalid request panicked: {}", stepno, normalise_panic(p)),
                ));
            }
            (Outcome::NoopEither, ExecResult::Panic(p)) => {
                violations.push(Violation::new(
                    "C02",
                    "panic",
                    format!("{}.panic", op.kind()),
                    format!("step {}: removing a non-existent item panicked: {}", stepno, normalise_panic(p)),
                ));
            }
            (Outcome::NoopEither, _) => {
                stats.probe("remove_nonexistent");
            }
            (Outcome::Skip, _) => unreachable!(),
        }

        if !self.checks {
            return violations;
        }
        // ---- state oracles
        if tolerate_nonatomic {
            stats.suppressed += 1;
            stats.probe("nonatomic_failure_tolerated");
            self.model = sequential.clone().unwrap();
        }
        let mut found = self.check_state_opt(stepno, pre_dump.is_some());
        for (k, v) in std::mem::take(&mut self.query_probes) {
            *stats.probes.entry(k).or_insert(0) += v;
        }
        if matches!(expected, Outcome::Err | Outcome::NoopEither) && !tolerate_nonatomic {
            // whatever differs now was caused by the request that should have changed nothing
            let owner = if removal { "C02" } else { "C14" };
            if let (Some(seq), false) = (sequential.as_ref(), found.is_empty()) {
                // is it exactly the residue of the stages that succeeded (the listed finding), or something else?
                let saved = std::mem::replace(&mut self.model, seq.clone());
                let against_seq = self.check_state_opt(stepno, true);
                self.model = saved;
                if against_seq.is_empty() {
                    let first = found[0].detail.clone();
                    found = vec![Violation::new(
                        "C14",
                        "nonatomic",
                        format!("after_failed_{}:residue_of_earlier_stages", op.kind()),
                        format!("the failed request left exactly the effects of its earlier stages behind; first difference: {}", first),
                    )];
                }
            }
            for v in found.iter_mut() {
                if v.class != "nonatomic" {
                    v.key = format!("after_failed_{}:{}", op.kind(), v.key);
                    if v.owner != owner {
                        v.also = Some(v.owner);
                    }
                    v.owner = owner;
                }
            }
            if let (Some(pre_dump), true) = (pre_dump, found.is_empty()) {
                if let Ok(mut post) = catch(|| self.store.verif_dump()) {
                    let mut pre_dump = pre_dump;
                    // the changed flags only decide whether stand-off files are rewritten; they are not an answer of the store
                    for d in [&mut pre_dump, &mut post] {
                        d.changed = false;
                        for (_, s) in d.datasets.iter_mut() {
                            s.changed = false;
                        }
                        for (_, r) in d.resources.iter_mut() {
                            r.changed = false;
                        }
                    }
                    if post != pre_dump {
                        found.push(Violation::new(
                            owner,
                            "mismatch",
                            format!("after_failed_{}:index_dump", op.kind()),
                            format!("step {}: raw indices changed although the request failed: {}", stepno, dump_diff(&pre_dump, &post)),
                        ));
                    }
                }
            }
        }
        violations.append(&mut found);
        if matches!(op, Op::Reindex) {
            // whatever is wrong right after reindex() is reindex's doing (it must be invisible through ids)
            for v in violations.iter_mut() {
                if v.owner != "C03" {
                    v.also = Some(v.owner);
                    v.owner = "C03";
                }
                v.key = format!("reindex:{}", v.key);
            }
        }
        if matches!(op, Op::ProtectText { .. }) {
            // whatever is wrong right after protect_text is wrong with the validation data it wrote
            for v in violations.iter_mut() {
                if v.owner != "C18" {
                    v.also = Some(v.owner);
                    v.owner = "C18";
                    v.key = format!("protect_text:{}", v.key);
                }
            }
        }
        if let Some(text) = via_query {
            // whatever is wrong after a request that went through query_mut is a difference between the query and the direct call
            for v in violations.iter_mut() {
                if v.owner != "C08" {
                    // (the query laws are about the state, not about how the last request was issued)
                    v.also = Some(v.owner);
                    v.owner = "C08";
                    v.key = format!("via_query:{}", v.key);
                    v.detail = format!("{} [request issued as: {}]", v.detail, text);
                }
            }
        }
        if self.cfg.probes && violations.is_empty() {
            stats.probe_log.push(crate::obs::probe_answers(&self.store, &self.model));
        }
        if is_restart {
            // whatever is wrong right after a reload is the round trip's doing
            let owner = restart_owner(op);
            for v in violations.iter_mut() {
                if v.owner != owner {
                    v.key = format!("reload:{}", v.key);
                    v.also = Some(v.owner);
                    v.owner = owner;
                }
            }
        }
        violations
    }

    pub fn check_state(&mut self, stepno: usize) -> Vec<Violation> {
        self.check_state_opt(stepno, false)
    }

    pub fn check_state_opt(&mut self, stepno: usize, force_ids: bool) -> Vec<Violation> {
        let o = self.cfg.oracles.clone().unwrap_or_else(Oracles::all);
        let mut c = Checker::new(&self.store, &self.model);
        c.check_live_sets();
        if o.dangling {
            c.check_no_dangling(true);
        }
        if c.out.is_empty() {
            if o.dump {
                c.check_dump();
            }
            if o.forward {
                c.check_forward();
            }
            if o.offsets {
                c.check_text_offsets();
            }
            if o.reverse {
                c.check_reverse();
            }
            if o.data_search && c.out.is_empty() {
                c.check_data_search(crate::rng::label_hash("datasearch") ^ (stepno as u64));
            }
            if force_ids || (self.cfg.ids_every > 0 && stepno % self.cfg.ids_every == 0) {
                c.check_ids(&self.id_pool);
            }
            if c.out.is_empty() && self.cfg.conversions {
                c.check_conversions();
            }
            if c.out.is_empty() && self.cfg.related_every > 0 && stepno % self.cfg.related_every == 0 {
                c.check_related_text(crate::rng::label_hash("related") ^ (stepno as u64));
            }
            if c.out.is_empty() && self.cfg.queries_every > 0 && stepno % self.cfg.queries_every == 0 {
                c.check_queries(crate::rng::label_hash("queries") ^ (stepno as u64), self.cfg.query_budget.max(50), &self.cfg.query_flags, &mut self.query_probes);
            }
        }
        let mut out = c.out;
        for v in out.iter_mut() {
            v.detail = format!("step {}: {}", stepno, v.detail);
        }
        out
    }
}

/// true if a non-atomic implementation would leave something behind when this (failing) request is executed
pub fn leaves_residue(pre: &Model, op: &Op) -> bool {
    if !matches!(op, Op::Annotate { .. } | Op::AnnotateBatch { .. } | Op::InsertData { .. }) {
        return false;
    }
    let mut seq = pre.clone();
    seq.apply_sequential(op);
    &seq != pre
}

fn restart_owner(op: &Op) -> &'static str {
    match op {
        Op::Checkpoint { format: Format::Csv } => "C15",
        Op::Restart { format: Format::Cbor } => "C11",
        Op::Restart { format: Format::Csv } => "C15",
        _ => "C05",
    }
}

fn sel_has_offsets(s: &Sel) -> bool {
    match s {
        Sel::Text { .. } => true,
        Sel::Annotation { offset: Some(_), .. } => true,
        Sel::Multi(v) | Sel::Composite(v) | Sel::Directional(v) => v.iter().any(sel_has_offsets),
        _ => false,
    }
}

pub fn op_has_offsets(op: &Op) -> bool {
    match op {
        Op::Annotate { target, .. } => sel_has_offsets(target),
        Op::AnnotateBatch { items } => items.iter().any(|(_, t, _)| sel_has_offsets(t)),
        _ => false,
    }
}

/// true if the request would be valid were all its offsets replaced by a valid one
fn invalid_because_of_offset(pre: &Model, op: &Op) -> bool {
    fn fix(s: &Sel) -> Sel {
        match s {
            Sel::Text { r, .. } => Sel::Text {
                r: *r,
                b: Cur::B(0),
                e: Cur::B(0),
            },
            Sel::Annotation { a, offset: Some(_) } => Sel::Annotation {
                a: *a,
                offset: Some((Cur::B(0), Cur::B(0))),
            },
            Sel::Multi(v) => Sel::Multi(v.iter().map(fix).collect()),
            Sel::Composite(v) => Sel::Composite(v.iter().map(fix).collect()),
            Sel::Directional(v) => Sel::Directional(v.iter().map(fix).collect()),
            other => other.clone(),
        }
    }
    let fixed = match op {
        Op::Annotate { id, target, data } => Op::Annotate {
            id: id.clone(),
            target: fix(target),
            data: data.clone(),
        },
        _ => return false,
    };
    let mut m = pre.clone();
    matches!(m.apply(&fixed).0, Outcome::Ok { .. } | Outcome::Skip)
}

fn dump_diff(a: &stam::verif_hooks::IndexDump, b: &stam::verif_hooks::IndexDump) -> String {
    let mut parts = Vec::new();
    macro_rules! f {
        ($name:ident) => {
            if a.$name != b.$name {
                parts.push(format!("{}: {:?} -> {:?}", stringify!($name), a.$name, b.$name));
            }
        };
    }
    f!(annotations_len);
    f!(resources_len);
    f!(datasets_len);
    f!(dataset_data_annotation_map);
    f!(textrelationmap);
    f!(resource_annotation_metamap);
    f!(dataset_annotation_metamap);
    f!(annotation_annotation_map);
    f!(key_annotation_metamap);
    f!(data_annotation_metamap);
    f!(annotation_idmap);
    f!(resource_idmap);
    f!(dataset_idmap);
    if a.datasets != b.datasets {
        parts.push("datasets differ".to_string());
    }
    if a.resources != b.resources {
        for ((_, x), (_, y)) in a.resources.iter().zip(b.resources.iter()) {
            if x != y {
                parts.push(format!(
                    "resource {:?}: textselections {:?} -> {:?}; positions {} -> {}",
                    x.handle,
                    x.textselections,
                    y.textselections,
                    x.positionindex.len(),
                    y.positionindex.len()
                ));
            }
        }
    }
    let mut s = parts.join("; ");
    trunc(&mut s, 600);
    s
}

/// Runs a fixed trace (replay / minimisation), with restart attribution
pub fn run_trace(trace: &Trace) -> RunResult {
    let r = run_trace_raw(trace);
    let r = attribute(trace, r);
    replica_check(trace, r)
}

pub fn run_trace_raw(trace: &Trace) -> RunResult {
    let mut world = World::new(trace.world.clone());
    let mut stats = RunStats::default();
    for (i, op) in trace.ops.iter().enumerate() {
        let v = world.step(op, &mut stats, i);
        if !v.is_empty() {
            stats.final_fingerprint = world.model.fingerprint();
            return RunResult {
                violations: v,
                step: Some(i),
                stats,
            };
        }
    }
    if world.cfg.merge_phase && !trace.ops.is_empty() {
        let last = trace.ops.len() - 1;
        let phase_seed = crate::rng::label_hash("merge") ^ (world.cfg.milestone_interval as u64);
        let v = crate::c03merge::merge_phase(&mut world, phase_seed, &mut stats);
        if !v.is_empty() {
            stats.final_fingerprint = world.model.fingerprint();
            return RunResult {
                violations: v,
                step: Some(last),
                stats,
            };
        }
    }
    if world.cfg.substore_phase && !trace.ops.is_empty() {
        let last = trace.ops.len() - 1;
        let phase_seed = crate::rng::label_hash("substores") ^ (world.cfg.milestone_interval as u64);
        let v = crate::c05sub::substore_phase(&mut world, phase_seed, &mut stats);
        if !v.is_empty() {
            stats.final_fingerprint = world.model.fingerprint();
            return RunResult {
                violations: v,
                step: Some(last),
                stats,
            };
        }
    }
    if world.cfg.validation_phase && !trace.ops.is_empty() {
        let last = trace.ops.len() - 1;
        let v = crate::c18::validation_phase(&mut world, &mut stats, last);
        if !v.is_empty() {
            stats.final_fingerprint = world.model.fingerprint();
            return RunResult {
                violations: v,
                step: Some(last),
                stats,
            };
        }
    }
    stats.final_fingerprint = world.model.fingerprint();
    for (k, v) in world.fs.fired() {
        *stats.faults_fired.entry(k).or_insert(0) += v;
    }
    RunResult {
        violations: Vec::new(),
        step: None,
        stats,
    }
}

/// Generates and runs one trace from a run seed. Returns the materialised trace and the result.
pub fn run_generated(run_seed: u64, profile: &dyn Fn(&mut Rng, &mut GenCfg, &mut WorldCfg)) -> (Trace, GenCfg, RunResult) {
    let mut cfg_rng = Rng::sub(run_seed, "cfg");
    let mut gcfg = GenCfg::draw(&mut cfg_rng);
    let mut wcfg = WorldCfg::default();
    wcfg.milestone_interval = *cfg_rng.pick(&[0, 1, 2, 3, 7, 100]);
    wcfg.shrink_to_fit = cfg_rng.chance(1, 2);
    profile(&mut cfg_rng, &mut gcfg, &mut wcfg);
    let mut wl = Rng::sub(run_seed, "wl");
    let mut world = World::new(wcfg.clone());
    if wcfg.io_noise {
        world.fs.set_noise(Some(Rng::sub(run_seed, "ionoise")), wcfg.io_eintr);
    }
    let mut stats = RunStats::default();
    let mut ops: Vec<Op> = Vec::new();
    let mut last_kind = "start".to_string();
    for i in 0..gcfg.n_ops {
        let op = {
            let mut g = Gen {
                rng: &mut wl,
                cfg: &gcfg,
            };
            g.next_op(&world.model)
        };
        ops.push(op.clone());
        if std::env::var("VERIF_TRACE_STEPS").is_ok() {
            println!("step {} {}", i, serde_json::to_string(&op).unwrap());
        }
        let v = world.step(&op, &mut stats, i);
        stats.bigrams.insert((last_kind.clone(), op.kind().to_string()));
        last_kind = op.kind().to_string();
        if !v.is_empty() {
            stats.final_fingerprint = world.model.fingerprint();
            stats.faults_fired = world.fs.fired();
            let trace = Trace { world: wcfg, ops };
            let result = attribute(
                &trace,
                RunResult {
                    violations: v,
                    step: Some(i),
                    stats,
                },
            );
            return (trace, gcfg, result);
        }
    }
    if world.cfg.merge_phase && !ops.is_empty() {
        let last = ops.len() - 1;
        let phase_seed = crate::rng::label_hash("merge") ^ (world.cfg.milestone_interval as u64);
        let v = crate::c03merge::merge_phase(&mut world, phase_seed, &mut stats);
        if !v.is_empty() {
            stats.final_fingerprint = world.model.fingerprint();
            let trace = Trace { world: wcfg, ops };
            return (
                trace,
                gcfg,
                RunResult {
                    violations: v,
                    step: Some(last),
                    stats,
                },
            );
        }
    }
    if world.cfg.substore_phase && !ops.is_empty() {
        let last = ops.len() - 1;
        let phase_seed = crate::rng::label_hash("substores") ^ (world.cfg.milestone_interval as u64);
        let v = crate::c05sub::substore_phase(&mut world, phase_seed, &mut stats);
        if !v.is_empty() {
            stats.final_fingerprint = world.model.fingerprint();
            let trace = Trace { world: wcfg, ops };
            return (
                trace,
                gcfg,
                RunResult {
                    violations: v,
                    step: Some(last),
                    stats,
                },
            );
        }
    }
    if world.cfg.validation_phase && !ops.is_empty() {
        let last = ops.len() - 1;
        let v = crate::c18::validation_phase(&mut world, &mut stats, last);
        if !v.is_empty() {
            stats.final_fingerprint = world.model.fingerprint();
            let trace = Trace { world: wcfg, ops };
            return (
                trace,
                gcfg,
                RunResult {
                    violations: v,
                    step: Some(last),
                    stats,
                },
            );
        }
    }
    stats.final_fingerprint = world.model.fingerprint();
    for (k, v) in world.fs.fired() {
        *stats.faults_fired.entry(k).or_insert(0) += v;
    }
    let trace = Trace { world: wcfg, ops };
    let result = replica_check(
        &trace,
        RunResult {
            violations: Vec::new(),
            step: None,
            stats,
        },
    );
    (trace, gcfg, result)
}

/// Differential attribution: a violation at a later step of a run that went through restarts is
/// owned by the round-trip property of the last restart if the same history without restarts
/// does not show it (a reload that "looks equal" but has subtly different internal state).
pub fn attribute(trace: &Trace, result: RunResult) -> RunResult {
    let Some(step) = result.step else { return result };
    if matches!(trace.ops[step], Op::Restart { .. }) {
        return result;
    }
    let last_restart = trace.ops[..step].iter().rev().find_map(|op| match op {
        Op::Restart { format } => Some(*format),
        _ => None,
    });
    let Some(format) = last_restart else { return result };
    // the query laws sample by step number, so the history without restarts asks other queries: no attribution
    if result.violations.iter().all(|v| v.owner == "C08" && !v.key.starts_with("via_query:")) {
        return result;
    }
    // the sub-store phase at the end of a run is a round trip of its own
    if result.violations.iter().all(|v| v.key.starts_with("substores.") || v.key.starts_with("merge:")) {
        return result;
    }
    let mut without = trace.clone();
    without.ops.truncate(step + 1);
    without.ops.retain(|op| !matches!(op, Op::Restart { .. } | Op::Checkpoint { .. }));
    let r2 = run_trace_raw(&without);
    let same = match r2.step {
        Some(s2) if s2 + 1 == without.ops.len() => r2
            .violations
            .iter()
            .any(|v| result.violations.iter().any(|w| w.signature() == v.signature())),
        _ => false,
    };
    if same {
        return result;
    }
    let owner = match format {
        Format::Cbor => "C11",
        Format::Csv => "C15",
        _ => "C05",
    };
    let mut result = result;
    for v in result.violations.iter_mut() {
        v.key = format!("after_restart:{}", v.key);
        v.also = Some(v.owner);
        v.owner = owner;
    }
    result
}

/// Builds a world by running a generated history without evaluating the oracles (used by the
/// engines that need realistic stores: corrupted loads, concurrent readers, ...). If the library
/// and the model disagree on an outcome the history is cut there.
pub fn generate_world(run_seed: u64, profile: &dyn Fn(&mut Rng, &mut GenCfg, &mut WorldCfg)) -> (World, Vec<Op>) {
    let mut cfg_rng = Rng::sub(run_seed, "cfg");
    let mut gcfg = GenCfg::draw(&mut cfg_rng);
    let mut wcfg = WorldCfg::default();
    profile(&mut cfg_rng, &mut gcfg, &mut wcfg);
    let mut wl = Rng::sub(run_seed, "wl");
    let mut world = World::new(wcfg);
    world.checks = false;
    let mut stats = RunStats::default();
    let mut ops = Vec::new();
    for i in 0..gcfg.n_ops {
        let op = {
            let mut g = Gen {
                rng: &mut wl,
                cfg: &gcfg,
            };
            g.next_op(&world.model)
        };
        ops.push(op.clone());
        let v = world.step(&op, &mut stats, i);
        if !v.is_empty() {
            break;
        }
    }
    (world, ops)
}

/// Knob replicas: the same trace under different performance-only settings must give the same
/// outcome at every step and the same probe answers.
pub fn replica_check(trace: &Trace, primary: RunResult) -> RunResult {
    if trace.world.replicas.is_empty() || primary.step.is_some() {
        return primary;
    }
    for (mi, stf) in trace.world.replicas.iter() {
        let mut t = trace.clone();
        t.world.replicas = Vec::new();
        t.world.milestone_interval = *mi;
        t.world.shrink_to_fit = *stf;
        let r = run_trace_raw(&t);
        if let Some(step) = r.step {
            // the replica violates something the primary does not: a knob changed an answer
            let mut out = primary;
            out.step = Some(step);
            out.violations = r
                .violations
                .iter()
                .map(|v| Violation::new("C12", "divergence", format!("replica:{}", v.key), format!("replica(milestone_interval={}, shrink_to_fit={}) but not the primary(milestone_interval={}, shrink_to_fit={}): {} [{}] {}", mi, stf, trace.world.milestone_interval, trace.world.shrink_to_fit, v.owner, v.class, v.detail)))
                .collect();
            return out;
        }
        for (i, (a, b)) in primary.stats.probe_log.iter().zip(r.stats.probe_log.iter()).enumerate() {
            if a != b {
                let mut key = "probe".to_string();
                let mut detail = String::new();
                for ((ka, va), (kb, vb)) in a.iter().zip(b.iter()) {
                    if ka != kb || va != vb {
                        key = format!("probe:{}", ka.split(':').next().unwrap_or("probe"));
                        detail = format!("{}: primary(milestone_interval={}, shrink_to_fit={}) answers {:?}, replica(milestone_interval={}, shrink_to_fit={}) answers {:?}", ka, trace.world.milestone_interval, trace.world.shrink_to_fit, va, mi, stf, vb);
                        break;
                    }
                }
                let mut out = primary;
                // the probe log has one entry per executed (non-skipped) step; report the index in that log
                out.step = Some(i.min(trace.ops.len().saturating_sub(1)));
                out.violations = vec![Violation::new("C12", "divergence", key, format!("probe record {}: {}", i, detail))];
                return out;
            }
        }
    }
    primary
}
