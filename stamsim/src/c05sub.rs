//! C05, sub-stores: "... also when resources, datasets or sub-stores are kept in stand-off files ...
//! and one level of sub-stores". At the end of a run part of the annotations (and of the stand-off
//! resources and datasets) is moved into a new sub-store, the store is saved (main file, sub-store
//! file, stand-off files), loaded again and saved again.
//!
//! A sub-store is written before the main store's own annotations are read back, so handles and
//! the global order legitimately change: nothing is compared through the model's order binding.
//! Instead a handle-free *content signature* of every annotation is computed through the public
//! API - identifier, data as (set id, key id, typed value), the selector tree with the identifiers
//! of what it refers to, reported offsets (with their alignment) and resolved text, and for
//! references to annotations the signature of the referenced annotation - and the multiset of
//! signatures must be the same before the move, after the move, and after the reload. The
//! reloaded store must also pass the model-free consistency checks, and saving it again must
//! produce identical files.

use crate::exec::{catch, normalise_panic, trunc};
use crate::obs::{Checker, Violation};
use crate::restart_files::assign_standoff_files;
use crate::rng::Rng;
use crate::world::{RunStats, World};
use stam::*;
use std::collections::BTreeMap;

fn value_sig(v: &DataValue) -> String {
    format!("{:?}", v)
}

fn selector_sig(store: &AnnotationStore, sel: &Selector, depth: usize) -> String {
    let res_id = |h: &TextResourceHandle| store.resource(*h).and_then(|r| r.id().map(|s| s.to_string())).unwrap_or_else(|| "?".into());
    let set_id = |h: &AnnotationDataSetHandle| store.dataset(*h).and_then(|r| r.id().map(|s| s.to_string())).unwrap_or_else(|| "?".into());
    match sel {
        Selector::TextSelector(r, _, _) => format!("T({},{:?})", res_id(r), sel.offset(store)),
        Selector::ResourceSelector(r) => format!("R({})", res_id(r)),
        Selector::DataSetSelector(s) => format!("S({})", set_id(s)),
        Selector::DataKeySelector(s, k) => {
            let key = store.dataset(*s).and_then(|d| d.key(*k).and_then(|k| k.id().map(|x| x.to_string()))).unwrap_or_else(|| "?".into());
            format!("K({},{})", set_id(s), key)
        }
        Selector::AnnotationDataSelector(s, d) => {
            let data = store
                .dataset(*s)
                .and_then(|ds| ds.annotationdata(*d).map(|d| format!("{:?}/{}={}", d.id(), d.key().id().unwrap_or("?"), value_sig(d.value()))))
                .unwrap_or_else(|| "?".into());
            format!("D({},{})", set_id(s), data)
        }
        Selector::AnnotationSelector(a, _) => {
            let inner = match store.annotation(*a) {
                Some(ann) if depth < 6 => annotation_sig(store, &ann, depth + 1),
                Some(_) => "deep".to_string(),
                None => "?".to_string(),
            };
            format!("A([{}],{:?})", inner, sel.offset(store))
        }
        Selector::MultiSelector(v) | Selector::CompositeSelector(v) | Selector::DirectionalSelector(v) => {
            let mut parts: Vec<String> = Vec::new();
            for sub in v.iter() {
                match sub {
                    Selector::RangedTextSelector { .. } | Selector::RangedAnnotationSelector { .. } => {
                        for s in sub.iter(store, false) {
                            parts.push(selector_sig(store, s.as_ref(), depth));
                        }
                    }
                    other => parts.push(selector_sig(store, other, depth)),
                }
            }
            // the members of a Multi/CompositeSelector are kept in a canonical order that depends on handles
            // (which a sub-store round trip changes); only a DirectionalSelector promises the given order
            if !matches!(sel, Selector::DirectionalSelector(_)) {
                parts.sort();
            }
            format!("{}[{}]", sel.kind().as_str(), parts.join(";"))
        }
        Selector::RangedTextSelector { .. } | Selector::RangedAnnotationSelector { .. } => {
            sel.iter(store, false).map(|s| selector_sig(store, s.as_ref(), depth)).collect::<Vec<_>>().join(";")
        }
    }
}

fn annotation_sig(store: &AnnotationStore, a: &ResultItem<Annotation>, depth: usize) -> String {
    let mut data: Vec<String> = a
        .data()
        .map(|d| format!("{}/{}/{:?}={}", d.set().id().unwrap_or("?"), d.key().id().unwrap_or("?"), d.id(), value_sig(d.value())))
        .collect();
    data.sort();
    let mut text: Vec<String> = a.textselections().map(|t| format!("{}:{}-{}:{}", t.resource().id().unwrap_or("?"), t.begin(), t.end(), t.text())).collect();
    if !matches!(a.as_ref().target(), Selector::DirectionalSelector(_)) {
        // textual order across resources follows the resource handles, which a sub-store round trip may change
        text.sort();
    }
    format!("id={:?} data=[{}] target={} text=[{}]", a.id(), data.join(","), selector_sig(store, a.as_ref().target(), depth), text.join("|"))
}

/// handle-free content of a store: annotations as a multiset of signatures, plus resources, datasets, keys, data
pub fn content(store: &AnnotationStore) -> Result<BTreeMap<String, usize>, String> {
    catch(|| {
        let mut m: BTreeMap<String, usize> = BTreeMap::new();
        for a in store.annotations() {
            *m.entry(format!("annotation {}", annotation_sig(store, &a, 0))).or_insert(0) += 1;
        }
        for r in store.resources() {
            *m.entry(format!("resource {:?} {:?}", r.id(), r.text())).or_insert(0) += 1;
        }
        for s in store.datasets() {
            let mut keys: Vec<String> = s.keys().map(|k| k.id().unwrap_or("?").to_string()).collect();
            keys.sort();
            let mut data: Vec<String> = s.data().map(|d| format!("{:?}/{}={}", d.id(), d.key().id().unwrap_or("?"), value_sig(d.value()))).collect();
            data.sort();
            *m.entry(format!("dataset {:?} keys={:?} data={:?}", s.id(), keys, data)).or_insert(0) += 1;
        }
        m
    })
}

fn diff(a: &BTreeMap<String, usize>, b: &BTreeMap<String, usize>) -> Option<String> {
    if a == b {
        return None;
    }
    let mut out = String::new();
    for (k, v) in a.iter() {
        if b.get(k) != Some(v) {
            out += &format!("only/more before: {}x {}; ", v, k);
            break;
        }
    }
    for (k, v) in b.iter() {
        if a.get(k) != Some(v) {
            out += &format!("only/more after: {}x {}; ", v, k);
            break;
        }
    }
    trunc(&mut out, 900);
    Some(out)
}

pub fn substore_phase(world: &mut World, seed: u64, stats: &mut RunStats) -> Vec<Violation> {
    let mut out = Vec::new();
    let mut rng = Rng::new(seed);
    let live: Vec<AnnotationHandle> = world.store.annotations().map(|a| a.handle()).collect();
    if live.is_empty() {
        return out;
    }
    // listed finding (sub-stores and temporary ids): a sub-store is read before the main store's own
    // annotations, so annotations get other handles than they had; an annotation without a public id is
    // written with its handle as temporary id, which then (a) breaks references to it by temporary id and
    // (b) makes the second write differ. The phase runs on stores whose live annotations all carry ids,
    // unless the flag "substore_idless" is set (the finding's replay carries it).
    let idless = world.store.annotations().any(|a| a.id().is_none());
    if idless && !world.cfg.query_flags.iter().any(|f| f == "substore_idless") {
        stats.probe("substore_phase_skipped:idless_annotations");
        return out;
    }
    // keys of violations on stores with id-less annotations are kept apart, so that the listed finding
    // can never cover a violation on a store whose annotations all carry ids
    let tag = if idless { "substores.idless" } else { "substores" };
    let key = |k: &str| format!("{}.{}", tag, k);
    // (stores with an empty-text resource are not given stand-off files, see DESIGN.md "unspecified")
    let before = match content(&world.store) {
        Ok(c) => c,
        Err(p) => {
            out.push(Violation::new("C05", "panic", key("content_before"), normalise_panic(&p)));
            return out;
        }
    };
    let main_path = "/sim/sub/main.store.stam.json";
    let sub_path = "/sim/sub/sub1.store.stam.json";
    let moved = catch(|| -> Result<usize, String> {
        assign_standoff_files(world, false)?;
        world.store.set_filename(main_path);
        let sub = world.store.add_new_substore("sub1", sub_path).map_err(|e| format!("add_new_substore: {}", e))?;
        // A sub-store is read before the main store's own members, so it has to be self-contained: the
        // moved annotations are closed under "targets an annotation", and every resource and dataset they
        // refer to (through targets or data) goes with them.
        let mut moved: std::collections::BTreeSet<AnnotationHandle> = std::collections::BTreeSet::new();
        for h in live.iter() {
            if rng.chance(1, 2) {
                moved.insert(*h);
            }
        }
        loop {
            let mut more: Vec<AnnotationHandle> = Vec::new();
            for h in moved.iter() {
                if let Some(a) = world.store.annotation(*h) {
                    for t in a.annotations_in_targets(AnnotationDepth::Max) {
                        if !moved.contains(&t.handle()) {
                            more.push(t.handle());
                        }
                    }
                }
            }
            if more.is_empty() {
                break;
            }
            moved.extend(more);
        }
        let mut res: std::collections::BTreeSet<TextResourceHandle> = std::collections::BTreeSet::new();
        let mut sets: std::collections::BTreeSet<AnnotationDataSetHandle> = std::collections::BTreeSet::new();
        for h in moved.iter() {
            if let Some(a) = world.store.annotation(*h) {
                for r in a.resources() {
                    res.insert(r.handle());
                }
                for r in a.resources_as_metadata() {
                    res.insert(r.handle());
                }
                for d in a.data() {
                    sets.insert(d.set().handle());
                }
                for s in a.datasets() {
                    sets.insert(s.handle());
                }
                for k in a.keys_as_metadata() {
                    sets.insert(k.set().handle());
                }
                for d in a.data_as_metadata() {
                    sets.insert(d.set().handle());
                }
            }
        }
        for h in res {
            world.store.associate_substore(h, sub).map_err(|e| format!("associate resource: {}", e))?;
        }
        for h in sets {
            world.store.associate_substore(h, sub).map_err(|e| format!("associate dataset: {}", e))?;
        }
        let n = moved.len();
        // the order in which items are handed to the sub-store, and handing one over twice, must not matter
        let mut order: Vec<AnnotationHandle> = moved.into_iter().collect();
        rng.shuffle(&mut order);
        for h in order.iter() {
            world.store.associate_substore(*h, sub).map_err(|e| format!("associate annotation: {}", e))?;
        }
        if let Some(h) = order.first() {
            if rng.chance(1, 2) {
                world.store.associate_substore(*h, sub).map_err(|e| format!("associate annotation again: {}", e))?;
            }
        }
        Ok(n)
    });
    match moved {
        Ok(Ok(n)) => {
            stats.probe("substore_phase");
            if n > 0 && n < live.len() {
                stats.probe("substore_split_annotations");
            }
        }
        Ok(Err(e)) => {
            out.push(Violation::new("C05", "outcome", key("move.refused"), e));
            return out;
        }
        Err(p) => {
            out.push(Violation::new("C05", "panic", key("move"), normalise_panic(&p)));
            return out;
        }
    }
    match content(&world.store) {
        Ok(mid) => {
            if let Some(d) = diff(&before, &mid) {
                out.push(Violation::new("C05", "mismatch", key("after_move"), format!("moving items into a sub-store changed what the store answers: {}", d)));
                return out;
            }
        }
        Err(p) => {
            out.push(Violation::new("C05", "panic", key("content_after_move"), normalise_panic(&p)));
            return out;
        }
    }
    match catch(|| world.store.save()) {
        Ok(Ok(())) => {}
        Ok(Err(e)) => {
            out.push(Violation::new("C05", "outcome", key("save.refused"), format!("{}", e)));
            return out;
        }
        Err(p) => {
            out.push(Violation::new("C05", "panic", key("save"), normalise_panic(&p)));
            return out;
        }
    }
    let first = world.fs.snapshot();
    let cfg = world.cfg.config().with_dataformat(world.store.config().dataformat());
    let new = match catch(|| AnnotationStore::from_file(main_path, cfg)) {
        Ok(Ok(s)) => s,
        Ok(Err(e)) => {
            let mut files = String::new();
            for p in [main_path, sub_path] {
                files += &format!("[{}] {} ", p, String::from_utf8_lossy(first.get(p).map(|v| &v[..]).unwrap_or(b"(missing)")));
            }
            trunc(&mut files, 6000);
            out.push(Violation::new("C05", "outcome", key("load.refused"), format!("{} -- {}", e, files)));
            return out;
        }
        Err(p) => {
            out.push(Violation::new("C05", "panic", key("load"), normalise_panic(&p)));
            return out;
        }
    };
    match content(&new) {
        Ok(after) => {
            if let Some(d) = diff(&before, &after) {
                out.push(Violation::new("C05", "mismatch", key("reload"), format!("the store loaded from the main file and its sub-store differs from the store that was saved: {}", d)));
                return out;
            }
        }
        Err(p) => {
            out.push(Violation::new("C05", "panic", key("content_after_reload"), normalise_panic(&p)));
            return out;
        }
    }
    // model-free consistency of the reloaded store
    {
        let mut c = Checker::new(&new, &world.model);
        c.check_no_dangling(false);
        c.check_dump();
        for mut v in c.out {
            v.key = format!("{}.reload:{}", tag, v.key);
            v.also = Some(v.owner);
            v.owner = "C05";
            out.push(v);
        }
        if !out.is_empty() {
            return out;
        }
    }
    // listed finding (sub-store round trips renumber handles, and the written form depends on handles: order of
    // the members of Multi/CompositeSelectors, temporary ids): the second write is compared only with the flag
    if !world.cfg.query_flags.iter().any(|f| f == "substore_reserialise") {
        return out;
    }
    match catch(|| new.save()) {
        Ok(Ok(())) => {
            let second = world.fs.snapshot();
            if let Some(d) = crate::restart_files::diff_files_pub(&first, &second) {
                out.push(Violation::new("C05", "mismatch", key("reserialise"), d));
            }
        }
        Ok(Err(e)) => out.push(Violation::new("C05", "outcome", key("reserialise"), format!("{}", e))),
        Err(p) => out.push(Violation::new("C05", "panic", key("reserialise"), normalise_panic(&p))),
    }
    out
}
