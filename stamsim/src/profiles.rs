//! Per-property workload profiles: each tweaks the swarm configuration towards the behaviour the
//! property is about, and names the oracle owners that the property's check reports.

use crate::gen::*;
use crate::ops::Format;
use crate::rng::Rng;
use crate::world::{Oracles, WorldCfg};

pub struct Profile {
    pub property: &'static str,
    pub engine: &'static str,
    pub owners: &'static [&'static str],
    pub level: &'static str,
    pub tweak: fn(&mut Rng, &mut GenCfg, &mut WorldCfg),
    pub quick_runs: u64,
    pub thorough_runs: u64,
    pub rule: &'static str,
}

fn base_removals(rng: &mut Rng, g: &mut GenCfg) {
    g.w[W_REMOVE_ANNOTATION] = *rng.pick(&[4, 8]);
    g.w[W_REMOVE_DATA] = *rng.pick(&[2, 4, 6]);
    g.w[W_REMOVE_KEY] = *rng.pick(&[1, 3]);
    g.w[W_REMOVE_RESOURCE] = *rng.pick(&[1, 2]);
    g.w[W_REMOVE_DATASET] = *rng.pick(&[1, 2]);
}

fn t_c01(rng: &mut Rng, g: &mut GenCfg, w: &mut WorldCfg) {
    base_removals(rng, g);
    g.w[W_PROTECT] = *rng.pick(&[0, 1, 2]);
    g.pct_invalid = *rng.pick(&[0, 5]);
    if rng.chance(1, 3) {
        g.restart_formats = vec![*rng.pick(&[Format::Cbor, Format::JsonInline])];
        g.w[W_RESTART] = 2;
    }
    w.ids_every = 4;
    w.oracles = Some(Oracles { data_search: false, ..Oracles::all() });
}

fn t_c02(rng: &mut Rng, g: &mut GenCfg, w: &mut WorldCfg) {
    g.w[W_REMOVE_ANNOTATION] = *rng.pick(&[8, 12]);
    g.w[W_REMOVE_DATA] = *rng.pick(&[6, 10]);
    g.w[W_REMOVE_KEY] = *rng.pick(&[4, 6]);
    g.w[W_REMOVE_RESOURCE] = *rng.pick(&[3, 5]);
    g.w[W_REMOVE_DATASET] = *rng.pick(&[3, 5]);
    g.w[W_ADD_RESOURCE] = 8;
    g.w[W_ADD_DATASET] = 5;
    g.wsel[5] = g.wsel[5].max(8);
    g.wsel[1] = g.wsel[1].max(4);
    g.wsel[2] = g.wsel[2].max(3);
    g.wsel[3] = g.wsel[3].max(4);
    g.wsel[4] = g.wsel[4].max(4);
    g.pct_invalid = 0;
    g.pct_any_ref = *rng.pick(&[0, 10]);
    w.ids_every = 0;
    w.oracles = Some(Oracles { dangling: true, ..Oracles::none() });
}

fn t_c03(rng: &mut Rng, g: &mut GenCfg, w: &mut WorldCfg) {
    base_removals(rng, g);
    g.w[W_STRIP_ANN] = *rng.pick(&[0, 1]);
    g.w[W_STRIP_DATA] = *rng.pick(&[0, 1]);
    g.w[W_REINDEX] = *rng.pick(&[0, 1, 2]);
    g.pct_ann_id = *rng.pick(&[50, 80]);
    g.pct_data_id = *rng.pick(&[30, 70]);
    g.n_ann_ids = rng.range(3, 8);
    g.pct_invalid = *rng.pick(&[5, 15]);
    if rng.chance(1, 4) {
        g.restart_formats = vec![Format::JsonInline];
        g.w[W_RESTART] = 2;
    }
    w.ids_every = 1;
    w.merge_phase = rng.chance(1, 3);
    w.oracles = Some(Oracles { dump: true, ..Oracles::none() });
}

fn t_c04(rng: &mut Rng, g: &mut GenCfg, w: &mut WorldCfg) {
    g.wsel = [30, 1, 0, 0, 0, 2, 25, 3, 3, 3];
    g.pct_invalid = *rng.pick(&[20, 35]);
    g.alphabets[1] = true;
    g.alphabets[3] = rng.chance(1, 2);
    g.max_text_len = *rng.pick(&[0, 1, 3, 8, 20]);
    g.w[W_REMOVE_ANNOTATION] = *rng.pick(&[0, 2]);
    if rng.chance(1, 3) {
        g.restart_formats = vec![*rng.pick(&[Format::JsonInline, Format::Cbor])];
        g.w[W_RESTART] = 2;
    }
    w.ids_every = 0;
    w.oracles = Some(Oracles { offsets: true, forward: true, dump: true, ..Oracles::none() });
}

fn t_c06(rng: &mut Rng, g: &mut GenCfg, w: &mut WorldCfg) {
    g.wsel = [40, 0, 0, 0, 0, 2, 10, 6, 6, 3];
    g.pct_geometry = *rng.pick(&[40, 70]);
    g.pct_invalid = 0;
    g.n_ops = rng.range(6, 24);
    g.max_text_len = *rng.pick(&[3, 8, 12, 20, 40]);
    g.alphabets[5] = true;
    g.n_res_ids = rng.range(1, 2);
    g.w[W_REMOVE_ANNOTATION] = *rng.pick(&[0, 3]);
    g.w[W_REMOVE_DATA] = 0;
    g.w[W_REMOVE_KEY] = 0;
    g.w[W_REMOVE_RESOURCE] = 0;
    g.w[W_REMOVE_DATASET] = 0;
    g.w[W_PROTECT] = 0;
    if rng.chance(1, 3) {
        g.restart_formats = vec![*rng.pick(&[Format::JsonInline, Format::Cbor])];
        g.w[W_RESTART] = 2;
    }
    w.ids_every = 0;
    w.related_every = *rng.pick(&[3, 5]);
    w.oracles = Some(Oracles { dump: true, reverse: true, ..Oracles::none() });
}

fn t_c08(rng: &mut Rng, g: &mut GenCfg, w: &mut WorldCfg) {
    base_removals(rng, g);
    g.pct_invalid = *rng.pick(&[0, 5]);
    g.n_ops = rng.range(6, 26);
    g.max_text_len = *rng.pick(&[6, 12, 20, 40]);
    g.w[W_PROTECT] = 0;
    if rng.chance(1, 3) {
        g.restart_formats = vec![*rng.pick(&[Format::JsonInline, Format::Cbor])];
        g.w[W_RESTART] = 2;
    }
    w.ids_every = 0;
    w.queries_every = *rng.pick(&[2, 3, 5]);
    w.query_budget = *rng.pick(&[150, 300]);
    w.mutate_via_query = rng.chance(1, 2);
    // (to look at the quarantined shapes: VERIF_C08_FLAGS=optional,indirect,multisel)
    if let Ok(f) = std::env::var("VERIF_C08_FLAGS") {
        w.query_flags = f.split(',').map(|x| x.trim().to_string()).filter(|x| !x.is_empty()).collect();
    }
    w.oracles = Some(Oracles { dump: true, forward: true, ..Oracles::none() });
}

fn t_c10(rng: &mut Rng, g: &mut GenCfg, w: &mut WorldCfg) {
    g.w[W_INSERT_DATA] = 25;
    g.w[W_ADD_DATASET] = 6;
    g.w[W_ANNOTATE] = 25;
    g.w[W_REMOVE_DATA] = *rng.pick(&[4, 8]);
    g.w[W_REMOVE_KEY] = *rng.pick(&[2, 5]);
    g.w[W_REMOVE_ANNOTATION] = 2;
    g.w[W_PROTECT] = *rng.pick(&[0, 2]);
    g.n_key_ids = rng.range(2, 4);
    g.pct_data_id = *rng.pick(&[0, 20, 50]);
    g.pct_invalid = 0;
    if rng.chance(1, 4) {
        g.restart_formats = vec![*rng.pick(&[Format::JsonInline, Format::Cbor])];
        g.w[W_RESTART] = 2;
    }
    w.ids_every = 0;
    w.oracles = Some(Oracles { dump: true, reverse: true, data_search: true, ..Oracles::none() });
}

fn t_c05(rng: &mut Rng, g: &mut GenCfg, w: &mut WorldCfg) {
    base_removals(rng, g);
    g.w[W_PROTECT] = *rng.pick(&[0, 1]);
    g.pct_invalid = 0;
    g.restart_formats = match rng.below(4) {
        0 => vec![Format::JsonInline],
        1 => vec![Format::JsonCompact, Format::JsonInline],
        2 => vec![Format::JsonInclude],
        _ => vec![Format::JsonInclude, Format::JsonInline, Format::JsonCompact],
    };
    g.w[W_RESTART] = *rng.pick(&[4, 8]);
    g.pct_ann_id = *rng.pick(&[0, 50, 100]);
    g.pct_data_id = *rng.pick(&[0, 30, 70]);
    w.io_noise = rng.chance(1, 2);
    w.ids_every = 6;
    w.oracles = Some(Oracles { data_search: false, ..Oracles::all() });
    w.substore_phase = rng.chance(1, 3);
    if w.substore_phase && rng.chance(2, 3) {
        // (the sub-store phase needs public ids on all annotations, see c05sub.rs)
        g.pct_ann_id = 100;
    }
    if let Ok(f) = std::env::var("VERIF_C05_FLAGS") {
        w.query_flags = f.split(',').map(|x| x.trim().to_string()).filter(|x| !x.is_empty()).collect();
    }
}

fn t_c11(rng: &mut Rng, g: &mut GenCfg, w: &mut WorldCfg) {
    base_removals(rng, g);
    g.w[W_PROTECT] = *rng.pick(&[0, 1, 2]);
    g.pct_invalid = 0;
    g.restart_formats = vec![Format::Cbor];
    g.w[W_RESTART] = *rng.pick(&[4, 8]);
    w.io_noise = rng.chance(1, 2);
    w.ids_every = 6;
    w.oracles = Some(Oracles::all());
}

fn t_c15(rng: &mut Rng, g: &mut GenCfg, w: &mut WorldCfg) {
    base_removals(rng, g);
    g.pct_invalid = 0;
    g.restart_formats = vec![Format::Csv];
    g.w[W_RESTART] = *rng.pick(&[3, 6]);
    if rng.chance(1, 3) {
        // complex selectors are what the CSV columns have to keep aligned member by member
        for i in 7..10 {
            g.wsel[i] = 14;
        }
        g.wsel[5] = g.wsel[5].max(6);
    }
    w.io_noise = rng.chance(1, 2);
    w.ids_every = 6;
    w.oracles = Some(Oracles { data_search: false, ..Oracles::all() });
}

fn t_c12(rng: &mut Rng, g: &mut GenCfg, w: &mut WorldCfg) {
    g.wsel = [40, 1, 0, 0, 0, 2, 12, 4, 4, 2];
    g.pct_invalid = *rng.pick(&[0, 5]);
    g.n_ops = rng.range(6, 24);
    g.max_text_len = *rng.pick(&[3, 8, 12, 20, 40]);
    g.alphabets = [true, true, rng.chance(1, 2), rng.chance(1, 2), rng.chance(1, 3), true];
    g.w[W_REMOVE_ANNOTATION] = *rng.pick(&[0, 3]);
    g.w[W_REMOVE_RESOURCE] = *rng.pick(&[0, 1]);
    g.w[W_PROTECT] = 0;
    if rng.chance(1, 3) {
        g.restart_formats = vec![*rng.pick(&[Format::JsonInline, Format::Cbor])];
        g.w[W_RESTART] = 2;
        w.restart_changes_knobs = rng.chance(1, 2);
    }
    w.ids_every = 0;
    w.conversions = true;
    w.probes = true;
    // the primary's knobs are drawn by the runner; the replicas take two other settings
    let all = [0usize, 1, 2, 3, 7, 100];
    let mut others: Vec<usize> = all.iter().cloned().filter(|x| *x != w.milestone_interval).collect();
    rng.shuffle(&mut others);
    w.replicas = vec![(others[0], !w.shrink_to_fit), (others[1], w.shrink_to_fit)];
    w.oracles = Some(Oracles { dump: true, ..Oracles::none() });
}

fn t_c18(rng: &mut Rng, g: &mut GenCfg, w: &mut WorldCfg) {
    g.wsel = [40, 1, 0, 0, 0, 2, 14, 5, 5, 3];
    g.pct_invalid = 0;
    g.n_ops = rng.range(5, 16);
    g.max_text_len = *rng.pick(&[3, 8, 12, 20, 40, 45, 60]);
    // automatic mode switches from text to checksum at 40 codepoints
    g.pref_lens = vec![39, 40, 41];
    // texts that read like numbers: a format that types values by their looks must not lose the stored text
    g.pct_digits = *rng.pick(&[0, 0, 60, 90]);
    g.n_res_ids = rng.range(1, 2);
    g.w[W_PROTECT] = *rng.pick(&[6, 10]);
    g.w[W_REMOVE_ANNOTATION] = *rng.pick(&[0, 2]);
    g.w[W_REMOVE_DATA] = 0;
    g.w[W_REMOVE_KEY] = 0;
    g.w[W_REMOVE_RESOURCE] = 0;
    g.w[W_REMOVE_DATASET] = 0;
    g.w[W_ADD_DATASET] = 1;
    g.w[W_INSERT_DATA] = 1;
    w.ids_every = 0;
    w.validation_phase = true;
    w.oracles = Some(Oracles { forward: true, ..Oracles::none() });
}

fn t_c14(rng: &mut Rng, g: &mut GenCfg, w: &mut WorldCfg) {
    g.pct_invalid = *rng.pick(&[30, 50]);
    g.w[W_ANNOTATE_BATCH] = *rng.pick(&[0, 6, 10]);
    g.w[W_REMOVE_ANNOTATION] = *rng.pick(&[2, 4]);
    g.w[W_REMOVE_DATA] = 2;
    g.pct_any_ref = *rng.pick(&[5, 15]);
    g.pct_redraw_residue = 85;
    w.skip_residue = false;
    w.ids_every = 0;
    w.oracles = Some(Oracles { data_search: false, ..Oracles::all() });
}

pub const STATE_RULE: &str = "one run = one seeded trace of 8-50 operations (swarm-drawn mix) executed in lock-step on the real AnnotationStore and the reference model, all oracles after every step; a run is non-trivial when it executed >= 5 successful mutations and >= 1 removal, restart or refused invalid request; distinct = distinct final model-state fingerprints among non-trivial runs";

pub fn profiles() -> Vec<Profile> {
    vec![
        Profile {
            property: "C01",
            engine: "stamsim-lockstep",
            owners: &["C01"],
            level: "exploration",
            tweak: t_c01,
            quick_runs: 4000,
            thorough_runs: 200000,
            rule: STATE_RULE,
        },
        Profile {
            property: "C02",
            engine: "stamsim-lockstep",
            owners: &["C02"],
            level: "exploration",
            tweak: t_c02,
            quick_runs: 4000,
            thorough_runs: 200000,
            rule: STATE_RULE,
        },
        Profile {
            property: "C03",
            engine: "stamsim-lockstep",
            owners: &["C03"],
            level: "exploration",
            tweak: t_c03,
            quick_runs: 3000,
            thorough_runs: 150000,
            rule: STATE_RULE,
        },
        Profile {
            property: "C04",
            engine: "stamsim-lockstep",
            owners: &["C04"],
            level: "exploration",
            tweak: t_c04,
            quick_runs: 4000,
            thorough_runs: 200000,
            rule: STATE_RULE,
        },
        Profile {
            property: "C06",
            engine: "stamsim-lockstep",
            owners: &["C06"],
            level: "exploration",
            tweak: t_c06,
            quick_runs: 1500,
            thorough_runs: 100000,
            rule: STATE_RULE,
        },
        Profile {
            property: "C08",
            engine: "stamsim-lockstep",
            owners: &["C08"],
            level: "exploration",
            tweak: t_c08,
            quick_runs: 1200,
            thorough_runs: 80000,
            rule: "one run = one seeded history (insertions, removals of every kind, optional restart) in lock-step with the reference model; every few steps the query laws are evaluated on the store as it then is: conjunction in every order == intersection of the constraints taken alone, union == union of branches without duplicates, LIMIT == slice of the unlimited sequence, sub-queries == nested iteration with the variable bound, printed STAMQL text parsed again == programmatic query; non-trivial and distinct as for the other lock-step checks",
        },
        Profile {
            property: "C10",
            engine: "stamsim-lockstep",
            owners: &["C10"],
            level: "exploration",
            tweak: t_c10,
            quick_runs: 4000,
            thorough_runs: 200000,
            rule: STATE_RULE,
        },
        Profile {
            property: "C05",
            engine: "stamsim-lockstep",
            owners: &["C05"],
            level: "exploration",
            tweak: t_c05,
            quick_runs: 4000,
            thorough_runs: 200000,
            rule: STATE_RULE,
        },
        Profile {
            property: "C11",
            engine: "stamsim-lockstep",
            owners: &["C11"],
            level: "exploration",
            tweak: t_c11,
            quick_runs: 4000,
            thorough_runs: 200000,
            rule: STATE_RULE,
        },
        Profile {
            property: "C15",
            engine: "stamsim-lockstep",
            owners: &["C15"],
            level: "exploration",
            tweak: t_c15,
            quick_runs: 4000,
            thorough_runs: 200000,
            rule: STATE_RULE,
        },
        Profile {
            property: "C12",
            engine: "stamsim-lockstep",
            owners: &["C12"],
            level: "exploration",
            tweak: t_c12,
            quick_runs: 1500,
            thorough_runs: 100000,
            rule: "one run = one seeded trace executed on three replicas that differ only in milestone_interval (0,1,2,3,7,100) and shrink_to_fit, each in lock-step with the reference model; the conversion oracle (every position and byte offset, on resources and sub-selections) runs after every step; probe answers (text search, split, trim, regex, segmentation, related text) must be equal across replicas; non-trivial and distinct as for the other lock-step checks",
        },
        Profile {
            property: "C18",
            engine: "stamsim-lockstep",
            owners: &["C18"],
            level: "fault_enumeration",
            tweak: t_c18,
            quick_runs: 2500,
            thorough_runs: 40000,
            rule: "one run = one seeded history with protect_text steps (all four modes, repeated) followed by the validation phase: validate now, save as JSON with every non-empty resource as stand-off .txt in SimFs and reload, then for EVERY position of every text one substitution, one insertion (1-3 codepoints) and one deletion (1-3 codepoints) of the stand-off file, each followed by a fresh load and a comparison of validate_text per annotation with the model; non-trivial/distinct as for the other lock-step checks",
        },
        Profile {
            property: "C14",
            engine: "stamsim-lockstep",
            owners: &["C14"],
            level: "fault_enumeration",
            tweak: t_c14,
            quick_runs: 4000,
            thorough_runs: 200000,
            rule: STATE_RULE,
        },
    ]
}
