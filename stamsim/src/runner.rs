//! Batch runner: seeded search over many simulated runs in parallel worker threads, aggregation
//! in run-index order (so the verdict is a pure function of VERIF_SEED), minimisation, replay
//! files, known findings and evidence.

use crate::evidence;
use crate::gen::GenCfg;
use crate::minimise;
use crate::obs::Violation;
use crate::profiles::{profiles, Profile};
use crate::rng;
use crate::world::*;
use serde::{Deserialize, Serialize};
use std::collections::{BTreeMap, BTreeSet};
use std::sync::atomic::{AtomicU64, Ordering};
use std::time::{Duration, Instant};

pub fn root() -> String {
    std::env::var("VERIF_ROOT").unwrap_or_else(|_| "/verif".to_string())
}

pub fn verif_seed() -> u64 {
    std::env::var("VERIF_SEED")
        .ok()
        .and_then(|s| s.trim().parse::<u64>().ok())
        .unwrap_or(20260926)
}

pub fn workers() -> usize {
    std::env::var("VERIF_WORKERS")
        .ok()
        .and_then(|s| s.parse().ok())
        .unwrap_or_else(|| std::thread::available_parallelism().map(|n| n.get()).unwrap_or(4))
        .max(1)
}

#[derive(Clone, Debug, Serialize, Deserialize)]
pub struct ReplayFile {
    pub property: String,
    pub signature: String,
    pub seed: u64,
    pub run: u64,
    pub run_seed: u64,
    pub engine: String,
    pub step: usize,
    pub violations: Vec<String>,
    pub original_len: usize,
    pub trace: Trace,
}

#[derive(Clone, Debug, Serialize, Deserialize)]
pub struct KnownFinding {
    pub property: String,
    pub signature: String,
    /// "known" (suppressed, printed as KNOWN-FINDING) or "fixed" (suppresses nothing)
    pub status: String,
    pub what: String,
    #[serde(default)]
    pub commit: Option<String>,
    #[serde(default)]
    pub replay: Option<String>,
}

pub fn load_known_findings() -> Vec<KnownFinding> {
    let path = format!("{}/known_findings.json", root());
    match std::fs::read_to_string(&path) {
        Ok(s) => match serde_json::from_str::<Vec<KnownFinding>>(&s) {
            Ok(v) => v,
            Err(e) => {
                println!("HARNESS-ERROR: cannot parse {}: {}", path, e);
                std::process::exit(2);
            }
        },
        Err(_) => Vec::new(),
    }
}

pub struct Found {
    pub run: u64,
    pub run_seed: u64,
    pub trace: Trace,
    pub gcfg: GenCfg,
    pub violations: Vec<Violation>,
    pub step: usize,
    pub count: u64,
}

#[derive(Default)]
pub struct Aggregate {
    pub runs: u64,
    pub steps: u64,
    pub ops_by_kind: BTreeMap<String, u64>,
    pub outcomes: BTreeMap<String, u64>,
    pub probes: BTreeMap<String, u64>,
    pub faults_fired: BTreeMap<String, u64>,
    pub nontrivial_fingerprints: BTreeSet<u64>,
    pub all_fingerprints: BTreeSet<u64>,
    pub bigrams: BTreeSet<(String, String)>,
    pub nontrivial_runs: u64,
    pub foreign_stops: u64,
    pub foreign_signatures: BTreeMap<String, u64>,
    pub owned: BTreeMap<String, Found>,
    pub samples: Vec<(u64, Trace)>,
    pub digest: u64,
    pub skipped_ops: u64,
    pub suppressed_ops: u64,
    pub restarts: u64,
}

impl Aggregate {
    fn merge(&mut self, other: Aggregate) {
        self.runs += other.runs;
        self.steps += other.steps;
        for (k, v) in other.ops_by_kind {
            *self.ops_by_kind.entry(k).or_insert(0) += v;
        }
        for (k, v) in other.outcomes {
            *self.outcomes.entry(k).or_insert(0) += v;
        }
        for (k, v) in other.probes {
            *self.probes.entry(k).or_insert(0) += v;
        }
        for (k, v) in other.faults_fired {
            *self.faults_fired.entry(k).or_insert(0) += v;
        }
        self.nontrivial_fingerprints.extend(other.nontrivial_fingerprints);
        self.all_fingerprints.extend(other.all_fingerprints);
        self.bigrams.extend(other.bigrams);
        self.nontrivial_runs += other.nontrivial_runs;
        self.foreign_stops += other.foreign_stops;
        for (k, v) in other.foreign_signatures {
            *self.foreign_signatures.entry(k).or_insert(0) += v;
        }
        for (sig, f) in other.owned {
            match self.owned.get_mut(&sig) {
                Some(existing) => {
                    let total = existing.count + f.count;
                    if f.run < existing.run {
                        *existing = f;
                    }
                    existing.count = total;
                }
                None => {
                    self.owned.insert(sig, f);
                }
            }
        }
        self.samples.extend(other.samples);
        self.digest ^= other.digest;
        self.skipped_ops += other.skipped_ops;
        self.suppressed_ops += other.suppressed_ops;
        self.restarts += other.restarts;
    }
}

/// per-run digest of the event log (operations, outcomes, final state): used by the determinism self-check
fn run_digest(index: u64, r: &RunResult) -> u64 {
    let mut h = rng::label_hash(&format!("{}", index));
    for (k, v) in r.stats.outcomes.iter() {
        h = h.rotate_left(5) ^ rng::label_hash(k) ^ (*v as u64);
    }
    h ^= r.stats.final_fingerprint;
    for v in r.violations.iter() {
        h = h.rotate_left(7) ^ rng::label_hash(&v.signature()) ^ rng::label_hash(&v.detail);
    }
    h ^= r.step.map(|s| s as u64 + 1).unwrap_or(0) << 32;
    h
}

pub fn explore_batch(profile: &Profile, seed: u64, runs: u64, nworkers: usize, owners: &[&str]) -> Aggregate {
    let counter = AtomicU64::new(0);
    let mut total = Aggregate::default();
    // watchdog: the one place a real clock is read. A run normally takes about a millisecond;
    // a run that takes more than 20 s is reported as a hang (the process cannot continue).
    let current: Vec<AtomicU64> = (0..nworkers).map(|_| AtomicU64::new(u64::MAX)).collect();
    let started: Vec<AtomicU64> = (0..nworkers).map(|_| AtomicU64::new(0)).collect();
    let done = std::sync::atomic::AtomicBool::new(false);
    let t0 = Instant::now();
    let results: Vec<Aggregate> = std::thread::scope(|scope| {
        let mut handles = Vec::new();
        {
            let current = &current;
            let started = &started;
            let done = &done;
            let property = profile.property;
            scope.spawn(move || {
                while !done.load(Ordering::SeqCst) {
                    std::thread::sleep(Duration::from_millis(100));
                    let now = t0.elapsed().as_millis() as u64;
                    for w in 0..current.len() {
                        let run = current[w].load(Ordering::SeqCst);
                        let st = started[w].load(Ordering::SeqCst);
                        if run != u64::MAX && now > st + 20_000 {
                            println!(
                                "HANG property={} run={} run_seed={} (no progress for 20 s; live heap {} MiB)",
                                property,
                                run,
                                rng::run_seed(seed, property, run),
                                crate::alloc_cap::LIVE.load(Ordering::Relaxed) >> 20
                            );
                            println!("HARNESS-ERROR: a simulated run hung; re-run with VERIF_TRACE_STEPS=1 VERIF_WORKERS=1 to locate the step");
                            std::process::exit(2);
                        }
                    }
                }
            });
        }
        for w in 0..nworkers {
            let counter = &counter;
            let current = &current;
            let started = &started;
            handles.push(
                std::thread::Builder::new()
                    .stack_size(64 << 20)
                    .spawn_scoped(scope, move || {
                        let mut agg = Aggregate::default();
                        loop {
                            let i = counter.fetch_add(1, Ordering::SeqCst);
                            if i >= runs {
                                current[w].store(u64::MAX, Ordering::SeqCst);
                                break;
                            }
                            started[w].store(t0.elapsed().as_millis() as u64, Ordering::SeqCst);
                            current[w].store(i, Ordering::SeqCst);
                            if let Some(only) = std::env::var("VERIF_ONLY_RUN").ok().and_then(|s| s.parse::<u64>().ok()) {
                                if i != only {
                                    continue;
                                }
                            }
                            let rs = rng::run_seed(seed, profile.property, i);
                            if std::env::var("VERIF_TRACE_RUNS").is_ok() {
                                println!("run {} seed {}", i, rs);
                            }
                            let tweak = profile.tweak;
                            let (trace, gcfg, result) = run_generated(rs, &|r, g, w| tweak(r, g, w));
                            agg.runs += 1;
                            agg.steps += result.stats.steps as u64;
                            agg.skipped_ops += result.stats.skipped as u64;
                            agg.suppressed_ops += result.stats.suppressed as u64;
                            agg.restarts += result.stats.restarts as u64;
                            for (k, v) in result.stats.ops_by_kind.iter() {
                                *agg.ops_by_kind.entry(k.to_string()).or_insert(0) += *v as u64;
                            }
                            for (k, v) in result.stats.outcomes.iter() {
                                *agg.outcomes.entry(k.clone()).or_insert(0) += *v as u64;
                            }
                            for (k, v) in result.stats.probes.iter() {
                                *agg.probes.entry(k.to_string()).or_insert(0) += *v as u64;
                            }
                            for (k, v) in result.stats.faults_fired.iter() {
                                *agg.faults_fired.entry(k.to_string()).or_insert(0) += *v as u64;
                            }
                            agg.bigrams.extend(result.stats.bigrams.iter().cloned());
                            agg.all_fingerprints.insert(result.stats.final_fingerprint);
                            if result.stats.nontrivial() {
                                agg.nontrivial_runs += 1;
                                agg.nontrivial_fingerprints.insert(result.stats.final_fingerprint);
                            }
                            agg.digest ^= run_digest(i, &result);
                            if i < 3 {
                                agg.samples.push((i, trace.clone()));
                            }
                            if let Some(step) = result.step {
                                let opkind = trace.ops[step].kind();
                                let owned: Vec<&Violation> = result.violations.iter().filter(|v| v.owned_by(owners)).collect();
                                if owned.is_empty() {
                                    agg.foreign_stops += 1;
                                    let sig = format!("{}|{}", result.violations[0].signature(), opkind);
                                    *agg.foreign_signatures.entry(sig).or_insert(0) += 1;
                                } else {
                                    let sig = format!("{}|{}", owned[0].signature(), opkind);
                                    match agg.owned.get_mut(&sig) {
                                        Some(f) => {
                                            f.count += 1;
                                            if i < f.run {
                                                f.run = i;
                                                f.run_seed = rs;
                                                f.trace = trace;
                                                f.gcfg = gcfg;
                                                f.violations = result.violations.clone();
                                                f.step = step;
                                            }
                                        }
                                        None => {
                                            agg.owned.insert(
                                                sig,
                                                Found {
                                                    run: i,
                                                    run_seed: rs,
                                                    trace,
                                                    gcfg,
                                                    violations: result.violations.clone(),
                                                    step,
                                                    count: 1,
                                                },
                                            );
                                        }
                                    }
                                }
                            }
                        }
                        agg
                    })
                    .expect("spawn worker"),
            );
        }
        let r = handles.into_iter().map(|h| h.join().expect("worker thread must not die")).collect();
        done.store(true, Ordering::SeqCst);
        r
    });
    for r in results {
        total.merge(r);
    }
    total.samples.sort_by_key(|(i, _)| *i);
    total
}

fn find_profile(property: &str) -> Profile {
    match profiles().into_iter().find(|p| p.property == property) {
        Some(p) => p,
        None => {
            println!("HARNESS-ERROR: no profile for property {}", property);
            std::process::exit(2);
        }
    }
}

pub fn write_replay(profile: &Profile, seed: u64, sig: &str, f: &Found, minimised: &Trace) -> String {
    let dir = format!("{}/replays", root());
    let _ = std::fs::create_dir_all(&dir);
    let r = run_trace(minimised);
    let rf = ReplayFile {
        property: profile.property.to_string(),
        signature: sig.to_string(),
        seed,
        run: f.run,
        run_seed: f.run_seed,
        engine: profile.engine.to_string(),
        step: r.step.unwrap_or(0),
        violations: r.violations.iter().map(|v| format!("{} [{}] {}: {}", v.owner, v.class, v.key, v.detail)).collect(),
        original_len: f.trace.ops.len(),
        trace: minimised.clone(),
    };
    let safe: String = sig.chars().map(|c| if c.is_ascii_alphanumeric() { c } else { '_' }).collect();
    let mut safe = safe;
    safe.truncate(80);
    let path = format!("{}/{}-{}-{}-{}.json", dir, profile.property, seed, f.run, safe);
    std::fs::write(&path, serde_json::to_string_pretty(&rf).expect("serialise replay")).expect("write replay file");
    path
}

pub fn check(property: &str, tier: &str) -> i32 {
    let start = Instant::now();
    let profile = find_profile(property);
    let seed = verif_seed();
    let runs = match tier {
        "quick" => profile.quick_runs,
        "thorough" => profile.thorough_runs,
        _ => {
            println!("HARNESS-ERROR: unknown tier {}", tier);
            return 2;
        }
    };
    let runs = std::env::var("VERIF_RUNS").ok().and_then(|s| s.parse().ok()).unwrap_or(runs);
    println!("stamsim check property={} tier={} VERIF_SEED={} runs={} workers={}", property, tier, seed, runs, workers());
    let known = load_known_findings();
    let agg = explore_batch(&profile, seed, runs, workers(), profile.owners);
    let mut new_violations = 0;
    let mut known_hit: Vec<String> = Vec::new();
    let mut replay_paths: Vec<String> = Vec::new();
    // triage aids: VERIF_MAX_REPORT=n reports (and minimises) at most n new violations, VERIF_MINIMISE_SECS bounds each minimisation
    let max_report: usize = std::env::var("VERIF_MAX_REPORT").ok().and_then(|s| s.parse().ok()).unwrap_or(usize::MAX);
    let min_secs: u64 = std::env::var("VERIF_MINIMISE_SECS").ok().and_then(|s| s.parse().ok()).unwrap_or(20);
    for (sig, f) in agg.owned.iter() {
        let is_known = known.iter().find(|k| k.status == "known" && k.property == property && &k.signature == sig);
        if is_known.is_none() && new_violations >= max_report {
            new_violations += 1;
            println!("VIOLATION property={} replay=(not minimised: VERIF_MAX_REPORT) signature: {}", property, sig);
            continue;
        }
        let minimised = minimise::minimise(&f.trace, profile.owners, sig, Duration::from_secs(if is_known.is_some() { 3 } else { min_secs }));
        // the minimised trace must reproduce the same signature in a fresh execution
        let again = minimise::owned_signature(&minimised, profile.owners);
        if again.as_deref() != Some(sig.as_str()) {
            println!("HARNESS-ERROR: replay diverged for signature {} (got {:?})", sig, again);
            return 2;
        }
        let path = write_replay(&profile, seed, sig, f, &minimised);
        match is_known {
            Some(k) => {
                println!("KNOWN-FINDING: property={} {} [{}] ({} of {} runs; replay={})", property, k.what, sig, f.count, runs, path);
                known_hit.push(sig.clone());
            }
            None => {
                new_violations += 1;
                let r = run_trace(&minimised);
                println!("VIOLATION property={} replay={}", property, path);
                println!("  signature: {}", sig);
                println!("  seed={} run={} ops={} (minimised from {}), hits in batch: {}", seed, f.run, minimised.ops.len(), f.trace.ops.len(), f.count);
                for v in r.violations.iter().take(3) {
                    println!("  {} [{}] {}: {}", v.owner, v.class, v.key, v.detail);
                }
                replay_paths.push(path);
            }
        }
    }
    // listed findings that did not show up in this batch are replayed from their committed files
    for k in known.iter().filter(|k| k.status == "known" && k.property == property) {
        if known_hit.contains(&k.signature) {
            continue;
        }
        if let Some(rel) = &k.replay {
            let path = format!("{}/{}", root(), rel);
            if let Ok(s) = std::fs::read_to_string(&path) {
                if let Ok(rf) = serde_json::from_str::<ReplayFile>(&s) {
                    if minimise::owned_signature(&rf.trace, profile.owners).as_deref() == Some(k.signature.as_str()) {
                        println!("KNOWN-FINDING: property={} {} [{}] (from {})", property, k.what, k.signature, rel);
                    }
                }
            }
        }
    }
    let wall = start.elapsed().as_secs_f64();
    evidence::write_state_evidence(&profile, tier, seed, runs, &agg, new_violations, wall, &known_hit);
    println!(
        "runs={} steps={} nontrivial_runs={} distinct_nontrivial_states={} foreign_stops={} wall={:.1}s runs/hour={:.0}",
        agg.runs,
        agg.steps,
        agg.nontrivial_runs,
        agg.nontrivial_fingerprints.len(),
        agg.foreign_stops,
        wall,
        agg.runs as f64 / wall * 3600.0
    );
    if new_violations > 0 {
        1
    } else {
        println!("OK property={} held on everything explored", property);
        0
    }
}

pub fn explore(property: &str, runs: u64) -> i32 {
    let profile = find_profile(property);
    let seed = verif_seed();
    let all: Vec<&str> = vec!["C01", "C02", "C03", "C04", "C05", "C06", "C08", "C10", "C11", "C12", "C14", "C15", "C18", "C19", "C20"];
    let start = Instant::now();
    let agg = explore_batch(&profile, seed, runs, workers(), &all);
    println!("explored {} runs in {:.1}s; nontrivial {}; distinct states {}", agg.runs, start.elapsed().as_secs_f64(), agg.nontrivial_runs, agg.nontrivial_fingerprints.len());
    let mut sigs: Vec<(&String, &Found)> = agg.owned.iter().collect();
    sigs.sort_by_key(|(_, f)| std::cmp::Reverse(f.count));
    for (sig, f) in sigs {
        println!("{:6}  {}   (first run {})", f.count, sig, f.run);
        if std::env::var("VERIF_VERBOSE").is_ok() {
            for v in f.violations.iter().take(2) {
                println!("          {} [{}] {}: {}", v.owner, v.class, v.key, v.detail);
            }
        }
    }
    println!("ops: {:?}", agg.ops_by_kind);
    println!("probes: {:?}", agg.probes);
    if let Ok(sig) = std::env::var("VERIF_MINIMISE") {
        if let Some(f) = agg.owned.get(&sig) {
            let owner = [&sig[0..3]];
            let m = minimise::minimise(&f.trace, &owner, &sig, Duration::from_secs(20));
            println!("minimised ({} ops):\n{}", m.ops.len(), serde_json::to_string_pretty(&m).unwrap());
            let r = run_trace(&m);
            for v in r.violations {
                println!("  {} [{}] {}: {}", v.owner, v.class, v.key, v.detail);
            }
        }
    }
    0
}

pub fn replay(path: &str) -> i32 {
    let s = match std::fs::read_to_string(path) {
        Ok(s) => s,
        Err(e) => {
            println!("HARNESS-ERROR: cannot read {}: {}", path, e);
            return 2;
        }
    };
    let rf: ReplayFile = match serde_json::from_str(&s) {
        Ok(r) => r,
        Err(e) => {
            println!("HARNESS-ERROR: cannot parse {}: {}", path, e);
            return 2;
        }
    };
    let r = run_trace(&rf.trace);
    match r.step {
        None => {
            println!("replay of {}: no violation (the recorded violation does not reproduce on this tree)", path);
            0
        }
        Some(step) => {
            let opkind = rf.trace.ops[step].kind();
            let sigs: Vec<String> = r.violations.iter().map(|v| format!("{}|{}", v.signature(), opkind)).collect();
            for v in r.violations.iter() {
                println!("{} [{}] {}: {}", v.owner, v.class, v.key, v.detail);
            }
            if sigs.contains(&rf.signature) {
                println!("VIOLATION property={} replay={}", rf.property, path);
                println!("replay reproduced signature {} at step {}", rf.signature, step);
                1
            } else {
                println!("HARNESS-ERROR: replay diverged: expected {} got {:?}", rf.signature, sigs);
                2
            }
        }
    }
}

/// Determinism self-check: the same seeds, twice, with different worker counts, must give the
/// same per-run event-log digests.
pub fn selftest(tier: &str) -> i32 {
    let n = if tier == "thorough" { 2000 } else { 200 };
    let seed = verif_seed();
    let all: Vec<&str> = vec!["C01", "C02", "C03", "C04", "C05", "C06", "C08", "C10", "C11", "C12", "C14", "C15", "C18", "C19", "C20"];
    let mut ok = true;
    for profile in profiles() {
        let a = explore_batch(&profile, seed, n, 1, &all);
        let b = explore_batch(&profile, seed, n, workers(), &all);
        let same = a.digest == b.digest && a.steps == b.steps && a.owned.keys().collect::<Vec<_>>() == b.owned.keys().collect::<Vec<_>>();
        println!("selftest {}: {} runs, digest {:016x} vs {:016x}: {}", profile.property, n, a.digest, b.digest, if same { "deterministic" } else { "DIVERGED" });
        ok &= same;
    }
    if ok {
        0
    } else {
        println!("HARNESS-ERROR: determinism self-check failed");
        2
    }
}
