//! stamsim: deterministic simulation with fault injection for stam-rust.
//!
//!   stamsim check <property> <quick|thorough>
//!   stamsim explore <property> [runs]        (debugging: histogram of all signatures)
//!   stamsim replay <file>
//!   stamsim selftest <quick|thorough>
//!
//! Exit codes: 0 = property held on everything explored (known findings are printed),
//! 1 = new violation (a line `VIOLATION property=<id> replay=<path>` is printed),
//! 2 = harness error.

mod c03merge;
mod c05sub;
mod c08;
mod c18;
mod c19;
mod c20;
mod evidence;
mod exec;
mod gen;
mod minimise;
mod model;
mod obs;
mod ops;
mod profiles;
mod restart;
mod restart_files;
mod rng;
mod runner;
mod simfs;
mod world;

use std::process::exit;

mod alloc_cap {
    //! A global allocator that aborts the process when the live heap exceeds a hard cap, so that
    //! "allocation sized by a number in the input" becomes a deterministic abort instead of
    //! exhausting the machine.
    use std::alloc::{GlobalAlloc, Layout, System};
    use std::sync::atomic::{AtomicUsize, Ordering};

    pub static LIVE: AtomicUsize = AtomicUsize::new(0);
    pub static CAP: AtomicUsize = AtomicUsize::new(12 << 30);

    pub struct Capped;

    unsafe impl GlobalAlloc for Capped {
        unsafe fn alloc(&self, layout: Layout) -> *mut u8 {
            let size = layout.size();
            let live = LIVE.fetch_add(size, Ordering::Relaxed) + size;
            if live > CAP.load(Ordering::Relaxed) {
                LIVE.fetch_sub(size, Ordering::Relaxed);
                return std::ptr::null_mut();
            }
            let p = System.alloc(layout);
            if p.is_null() {
                LIVE.fetch_sub(size, Ordering::Relaxed);
            }
            p
        }
        unsafe fn dealloc(&self, ptr: *mut u8, layout: Layout) {
            LIVE.fetch_sub(layout.size(), Ordering::Relaxed);
            System.dealloc(ptr, layout)
        }
        unsafe fn realloc(&self, ptr: *mut u8, layout: Layout, new_size: usize) -> *mut u8 {
            let old = layout.size();
            if new_size > old {
                let live = LIVE.fetch_add(new_size - old, Ordering::Relaxed) + (new_size - old);
                if live > CAP.load(Ordering::Relaxed) {
                    LIVE.fetch_sub(new_size - old, Ordering::Relaxed);
                    return std::ptr::null_mut();
                }
            } else {
                LIVE.fetch_sub(old - new_size, Ordering::Relaxed);
            }
            let p = System.realloc(ptr, layout, new_size);
            if p.is_null() && new_size > old {
                LIVE.fetch_sub(new_size - old, Ordering::Relaxed);
            }
            p
        }
    }
}

#[global_allocator]
static GLOBAL: alloc_cap::Capped = alloc_cap::Capped;

fn usage() -> ! {
    println!("usage: stamsim check <property> <quick|thorough> | explore <property> [runs] | replay <file> | selftest <quick|thorough>");
    exit(2)
}

fn main() {
    exec::install_panic_hook();
    let args: Vec<String> = std::env::args().collect();
    if args.len() < 2 {
        usage();
    }
    match args[1].as_str() {
        "check" => {
            if args.len() < 4 {
                usage();
            }
            if args[2] == "C19" {
                exit(c19::check(&args[3]));
            }
            if args[2] == "C20" {
                exit(c20::check(&args[3]));
            }
            exit(runner::check(&args[2], &args[3]));
        }
        "c19worker" => {
            let p = |i: usize| -> u64 { args.get(i).and_then(|s| s.parse().ok()).unwrap_or(0) };
            exit(c19::worker(p(2), p(3), p(4), p(5).max(1)));
        }
        "c19case" => {
            exit(c19::run_case_file(&args[2]));
        }
        "explore" => {
            if args.len() < 3 {
                usage();
            }
            let runs = args.get(3).and_then(|s| s.parse().ok()).unwrap_or(2000);
            exit(runner::explore(&args[2], runs));
        }
        "replay" => {
            if args.len() < 3 {
                usage();
            }
            if args[2].contains("/C19-") || args[2].contains("/C19_") {
                exit(c19::replay(&args[2]));
            }
            if args[2].contains("/C20-") || args[2].contains("/C20_") {
                exit(c20::replay(&args[2]));
            }
            exit(runner::replay(&args[2]));
        }
        "selftest" => {
            let tier = args.get(2).map(|s| s.as_str()).unwrap_or("quick");
            exit(runner::selftest(tier));
        }
        _ => usage(),
    }
}
