//! C20: concurrent readers of a shared store see sequential results.
//!
//! Engine: shuttle (seeded random and PCT schedulers, never DFS). Scheduling points are the
//! guarded yield sites in stam (hook H2: serialize_mode read/write, changed-flag read/mark/unmark)
//! and every SimFs call. The library keeps its std RwLocks: only one simulated thread runs at a
//! time and no yield site lies inside a guard's scope, so they are never contended.
//! Real: all of stam, its locks, serde_json. Stub: rayon's scheduling (never invoked).

use crate::exec::*;
use crate::gen::*;
use crate::rng::{self, Rng};
use crate::runner::{load_known_findings, root, verif_seed, workers};
use crate::world::*;
use serde::{Deserialize, Serialize};
use stam::*;
use std::cell::RefCell;
use std::collections::{BTreeMap, BTreeSet};
use std::rc::Rc;
use std::sync::{Arc, Mutex};
use std::time::Instant;

#[derive(Clone, Debug, Serialize, Deserialize, PartialEq)]
pub enum ROp {
    StoreJson,
    ResourceJsonTrait(usize),
    ResourceJsonInherent(usize),
    DatasetJsonTrait(usize),
    DatasetJsonInherent(usize),
    CollectAnnotations,
    CollectData,
    TextSelections(usize),
    FindText(String),
    Query(String),
    RelatedText(usize),
}

impl ROp {
    fn kind(&self) -> &'static str {
        match self {
            ROp::StoreJson => "store_json",
            ROp::ResourceJsonTrait(_) => "resource_json_trait",
            ROp::ResourceJsonInherent(_) => "resource_json_inherent",
            ROp::DatasetJsonTrait(_) => "dataset_json_trait",
            ROp::DatasetJsonInherent(_) => "dataset_json_inherent",
            ROp::CollectAnnotations => "collect_annotations",
            ROp::CollectData => "collect_data",
            ROp::TextSelections(_) => "textselections",
            ROp::FindText(_) => "find_text",
            ROp::Query(_) => "query",
            ROp::RelatedText(_) => "related_text",
        }
    }
    /// writes the shared serialisation mode
    fn toggles_mode(&self) -> bool {
        matches!(self, ROp::ResourceJsonTrait(_) | ROp::DatasetJsonTrait(_))
    }
    /// output depends on the shared serialisation mode
    fn reads_mode(&self) -> bool {
        matches!(
            self,
            ROp::StoreJson | ROp::ResourceJsonTrait(_) | ROp::ResourceJsonInherent(_) | ROp::DatasetJsonTrait(_) | ROp::DatasetJsonInherent(_)
        )
    }
}

#[derive(Clone, Debug, Serialize, Deserialize)]
pub struct Scenario {
    pub seed: u64,
    pub index: u64,
    /// free = the mix may contain the listed serialize_mode interference
    pub free_mix: bool,
    /// the store is serialised once before the readers start, so that no stand-off file is pending
    #[serde(default)]
    pub settle: bool,
    pub threads: Vec<Vec<ROp>>,
}

#[derive(Clone, Debug, Serialize, Deserialize)]
pub struct C20Replay {
    pub property: String,
    pub signature: String,
    pub seed: u64,
    pub scenario: Scenario,
    pub scheduler: String,
    pub schedule: String,
    pub detail: String,
}

fn scenario_profile(rng: &mut Rng, g: &mut GenCfg, w: &mut WorldCfg) {
    g.n_ops = rng.range(6, 16);
    g.pct_invalid = 0;
    g.max_text_len = *rng.pick(&[8, 20]);
    g.w[W_ADD_RESOURCE] = 10;
    g.w[W_ADD_DATASET] = 6;
    g.w[W_REMOVE_ANNOTATION] = 1;
    w.ids_every = 0;
}

/// Builds the shared store for a scenario: a short seeded history, then some resources and
/// datasets are moved to stand-off files (so the store has inline *and* stand-off members).
fn build_store(s: &Scenario) -> World {
    let (mut world, _) = generate_world(rng::run_seed(s.seed, "C20-store", s.index), &scenario_profile);
    let mut r = Rng::new(rng::run_seed(s.seed, "C20-layout", s.index));
    let res: Vec<(usize, String, bool)> = world
        .store
        .resources()
        .map(|x| (x.handle().as_usize(), x.id().unwrap_or("").to_string(), x.textlen() == 0))
        .collect();
    for (h, id, empty) in res {
        if !empty && r.chance(1, 2) {
            let ext = if r.chance(1, 2) { "json" } else { "txt" };
            let name = format!("/sim/c20/{}.{}", id, ext);
            if let Ok(item) = <AnnotationStore as StoreFor<TextResource>>::get_mut(&mut world.store, TextResourceHandle::new(h)) {
                item.set_filename(&name);
            }
        }
    }
    let sets: Vec<(usize, String)> = world.store.datasets().map(|x| (x.handle().as_usize(), x.id().unwrap_or("").to_string())).collect();
    for (h, id) in sets {
        if r.chance(1, 2) {
            let safe: String = id.chars().map(|c| if c.is_ascii_alphanumeric() { c } else { '_' }).collect();
            let name = format!("/sim/c20/{}.annotationset.stam.json", safe);
            if let Ok(item) = <AnnotationStore as StoreFor<AnnotationDataSet>>::get_mut(&mut world.store, AnnotationDataSetHandle::new(h)) {
                item.set_filename(&name);
            }
        }
    }
    if s.settle {
        let _ = world.store.to_json_string(world.store.config());
    }
    world
}

pub fn gen_scenario(seed: u64, index: u64) -> Scenario {
    let mut r = Rng::new(rng::run_seed(seed, "C20-scenario", index));
    let free_mix = r.chance(1, 5);
    let settle = r.chance(1, 2);
    let nthreads = r.range(2, 3);
    let mut threads: Vec<Vec<ROp>> = Vec::new();
    // Quarantine for the listed finding (shared serialisation mode): writing a pending stand-off
    // JSON file and the trait-level to_json_string both flip the mode shared by every clone of the
    // Config. In the quarantined mix, either nothing can flip it (settled store, no trait-level
    // serialisation of members) or everything that depends on it lives in thread 0.
    let allow_trait = r.chance(1, 2);
    for t in 0..nthreads {
        let n = r.range(2, 5);
        let mut ops = Vec::new();
        for _ in 0..n {
            let op = match r.below(12) {
                0 | 1 => ROp::StoreJson,
                2 => ROp::ResourceJsonTrait(r.below(4)),
                3 => ROp::ResourceJsonInherent(r.below(4)),
                4 => ROp::DatasetJsonTrait(r.below(3)),
                5 => ROp::DatasetJsonInherent(r.below(3)),
                6 => ROp::CollectAnnotations,
                7 => ROp::CollectData,
                8 => ROp::TextSelections(r.below(4)),
                9 => ROp::FindText(r.pick(&["a", "b", " ", "é", "c"]).to_string()),
                10 => ROp::Query(r.pick(&["SELECT ANNOTATION ?a;", "SELECT RESOURCE ?r;", "SELECT DATA ?d;", "SELECT TEXT ?t;"]).to_string()),
                _ => ROp::RelatedText(r.below(4)),
            };
            let allowed = if free_mix {
                true
            } else if settle && !allow_trait {
                // nothing can flip the mode: mode readers may run in every thread
                !op.toggles_mode()
            } else {
                !(op.reads_mode() || op.toggles_mode()) || t == 0
            };
            if allowed {
                ops.push(op);
            } else {
                ops.push(r.pick(&[ROp::CollectAnnotations, ROp::CollectData]).clone());
            }
        }
        threads.push(ops);
    }
    Scenario { seed, index, free_mix, settle, threads }
}

fn run_rop(store: &AnnotationStore, op: &ROp) -> String {
    let nth_res = |i: usize| store.resources().nth(i);
    let nth_set = |i: usize| store.datasets().nth(i);
    match op {
        ROp::StoreJson => match store.to_json_string(store.config()) {
            Ok(s) => s,
            Err(e) => format!("ERR {}", e),
        },
        ROp::ResourceJsonTrait(i) => match nth_res(*i) {
            Some(r) => match ToJson::to_json_string(r.as_ref(), r.as_ref().config()) {
                Ok(s) => s,
                Err(e) => format!("ERR {}", e),
            },
            None => "none".to_string(),
        },
        ROp::ResourceJsonInherent(i) => match nth_res(*i) {
            Some(r) => match TextResource::to_json_string(r.as_ref()) {
                Ok(s) => s,
                Err(e) => format!("ERR {}", e),
            },
            None => "none".to_string(),
        },
        ROp::DatasetJsonTrait(i) => match nth_set(*i) {
            Some(r) => match ToJson::to_json_string(r.as_ref(), r.as_ref().config()) {
                Ok(s) => s,
                Err(e) => format!("ERR {}", e),
            },
            None => "none".to_string(),
        },
        ROp::DatasetJsonInherent(i) => match nth_set(*i) {
            Some(r) => match AnnotationDataSet::to_json_string(r.as_ref()) {
                Ok(s) => s,
                Err(e) => format!("ERR {}", e),
            },
            None => "none".to_string(),
        },
        ROp::CollectAnnotations => {
            let mut out = String::new();
            for a in store.annotations() {
                out += &format!("{:?}|{:?}|{};", a.handle(), a.id(), a.text_join("/"));
            }
            out
        }
        ROp::CollectData => {
            let mut out = String::new();
            for d in store.data() {
                out += &format!("{:?}|{:?}|{};", d.handle(), d.id(), d.value());
            }
            out
        }
        ROp::TextSelections(i) => match nth_res(*i) {
            Some(r) => r.textselections().map(|t| format!("{}-{};", t.begin(), t.end())).collect(),
            None => "none".to_string(),
        },
        ROp::FindText(f) => store.find_text(f).map(|t| format!("{}:{}-{};", t.resource().handle().as_usize(), t.begin(), t.end())).collect(),
        ROp::Query(q) => match Query::try_from(q.as_str()) {
            Ok(query) => match store.query(query) {
                Ok(iter) => {
                    let mut out = String::new();
                    for row in iter {
                        for item in row.iter() {
                            out += &match item {
                                QueryResultItem::Annotation(a) => format!("A{};", a.handle().as_usize()),
                                QueryResultItem::TextResource(a) => format!("R{};", a.handle().as_usize()),
                                QueryResultItem::AnnotationData(a) => format!("D{};", a.handle().as_usize()),
                                QueryResultItem::TextSelection(t) => format!("T{}-{};", t.begin(), t.end()),
                                _ => "other;".to_string(),
                            };
                        }
                    }
                    out
                }
                Err(e) => format!("ERR {}", e),
            },
            Err(e) => format!("ERR {}", e),
        },
        ROp::RelatedText(i) => {
            let mut out = String::new();
            if let Some(a) = store.annotations().nth(*i) {
                for t in a.related_text(TextSelectionOperator::overlaps()) {
                    out += &format!("{}-{};", t.begin(), t.end());
                }
            }
            out
        }
    }
}

thread_local! {
    static SITE_LOG: RefCell<Vec<(usize, &'static str)>> = RefCell::new(Vec::new());
    static INTERLEAVINGS: RefCell<BTreeSet<u64>> = RefCell::new(BTreeSet::new());
    static NONTRIVIAL: RefCell<BTreeSet<u64>> = RefCell::new(BTreeSet::new());
    static EXECUTIONS: RefCell<u64> = RefCell::new(0);
    static SITES: RefCell<BTreeMap<&'static str, u64>> = RefCell::new(BTreeMap::new());
}

fn task_index() -> usize {
    let id: usize = shuttle::current::get_current_task().map(|t| usize::from(t)).unwrap_or(0);
    id
}

/// Solo results: every thread's list executed alone on an identical store; and the files after
/// running all threads one after the other.
fn solo(s: &Scenario) -> (Vec<Vec<String>>, BTreeMap<String, Vec<u8>>, String) {
    let mut results = Vec::new();
    for ops in s.threads.iter() {
        let world = build_store(s);
        let r: Vec<String> = ops.iter().map(|op| run_rop(&world.store, op)).collect();
        results.push(r);
    }
    let world = build_store(s);
    for ops in s.threads.iter() {
        for op in ops {
            let _ = run_rop(&world.store, op);
        }
    }
    // after the last reader has finished: one more serialisation of the store (nothing may linger)
    let c0 = world.fs.inner.borrow().creates;
    let post = run_rop(&world.store, &ROp::StoreJson);
    let written = world.fs.inner.borrow().creates - c0;
    let post = format!("{}\n#files written by this serialisation: {}", post, written);
    (results, world.fs.snapshot(), post)
}

fn classify(op: &ROp, solo: &str, got: &str) -> String {
    if op.reads_mode() {
        let inc_solo = solo.contains("\"@include\"");
        let inc_got = got.contains("\"@include\"");
        let count = |s: &str| s.matches("\"@include\"").count();
        if inc_solo != inc_got || count(solo) != count(got) {
            return "serialize_mode_interference".to_string();
        }
    }
    format!("{}.result_differs", op.kind())
}

/// The body run under the scheduler. Panics (with a classified message) on any divergence.
fn scenario_body(s: &Scenario, solo_results: &Vec<Vec<String>>, solo_files: &BTreeMap<String, Vec<u8>>, solo_post: &str) {
    let world = build_store(s);
    SITE_LOG.with(|l| l.borrow_mut().clear());
    let hook: Rc<dyn Fn(&'static str)> = Rc::new(|site: &'static str| {
        SITE_LOG.with(|l| l.borrow_mut().push((task_index(), site)));
        SITES.with(|m| *m.borrow_mut().entry(site).or_insert(0) += 1);
        // a context switch (shuttle does not model time; sleep is a plain switch and, unlike
        // yield_now, does not deprioritise the caller under PCT)
        shuttle::thread::sleep(std::time::Duration::from_millis(0));
    });
    stam::verif_hooks::set_yield(Some(hook.clone()));
    world.fs.set_on_call(Some(hook));
    let fs = world.fs.clone();
    let store = Arc::new(world.store);
    let results: Arc<Mutex<Vec<Vec<String>>>> = Arc::new(Mutex::new(vec![Vec::new(); s.threads.len()]));
    let mut handles = Vec::new();
    for (t, ops) in s.threads.iter().enumerate() {
        let store = store.clone();
        let ops = ops.clone();
        let results = results.clone();
        handles.push(shuttle::thread::spawn(move || {
            let mut mine = Vec::new();
            for op in ops.iter() {
                mine.push(run_rop(&store, op));
            }
            results.lock().unwrap()[t] = mine;
        }));
    }
    for h in handles {
        h.join().expect("reader thread panicked");
    }
    stam::verif_hooks::set_yield(None);
    fs.set_on_call(None);
    // distinct interleavings: hash of the (thread, site) sequence
    let (hash, switches) = SITE_LOG.with(|l| {
        let l = l.borrow();
        let mut h: u64 = 0xcbf29ce484222325;
        let mut switches = 0;
        let mut last = usize::MAX;
        for (t, site) in l.iter() {
            h ^= (*t as u64) << 32 ^ rng::label_hash(site);
            h = h.wrapping_mul(0x100000001b3);
            if *t != last {
                switches += 1;
                last = *t;
            }
        }
        (h, switches)
    });
    INTERLEAVINGS.with(|s| {
        s.borrow_mut().insert(hash);
    });
    if switches > s.threads.len() {
        NONTRIVIAL.with(|s| {
            s.borrow_mut().insert(hash);
        });
    }
    EXECUTIONS.with(|e| *e.borrow_mut() += 1);
    // quiescence: all readers are done, so the store must answer exactly as it does after the same
    // calls made one after the other (a mode left flipped, a flag left set would show here)
    let c0 = fs.inner.borrow().creates;
    let post = run_rop(&store, &ROp::StoreJson);
    let written = fs.inner.borrow().creates - c0;
    let (solo_json, solo_written) = solo_post.rsplit_once("\n#files written by this serialisation: ").unwrap_or((solo_post, "0"));
    if post != solo_json {
        panic!("C20DIVERGENCE|after_quiescence|store serialisation after all readers finished: solo {:?} concurrent {:?}", short(solo_json), short(&post));
    }
    let got = results.lock().unwrap().clone();
    for (t, ops) in s.threads.iter().enumerate() {
        for (i, op) in ops.iter().enumerate() {
            let exp = &solo_results[t][i];
            let g = got[t].get(i).cloned().unwrap_or_default();
            if exp != &g {
                let class = classify(op, exp, &g);
                panic!("C20DIVERGENCE|{}|thread {} op {} {:?}: solo {:?} concurrent {:?}", class, t, i, op, short(exp), short(&g));
            }
        }
    }
    let files = fs.snapshot();
    if &files != solo_files {
        let mut what = String::new();
        let mut class = "standoff_files_differ";
        for (k, v) in solo_files.iter() {
            if files.get(k) != Some(v) {
                what = format!("file {} differs or is missing", k);
                if let Some(w) = files.get(k) {
                    let a = String::from_utf8_lossy(v).matches("\"@include\"").count();
                    let b = String::from_utf8_lossy(w).matches("\"@include\"").count();
                    if a != b {
                        class = "serialize_mode_interference";
                    }
                }
                break;
            }
        }
        if what.is_empty() {
            what = "extra file written".to_string();
        }
        panic!("C20DIVERGENCE|{}|{}", class, what);
    }
    // nothing visible went wrong in this execution: then no flag may be left set either (a changed flag
    // left set shows as a stand-off file that the next serialisation writes again although nothing changed)
    if written.to_string() != solo_written {
        panic!("C20DIVERGENCE|after_quiescence_writes|the store serialisation after all readers finished wrote {} files, after the same calls made sequentially it writes {}", written, solo_written);
    }
}

static SCHED_LOCK: std::sync::RwLock<()> = std::sync::RwLock::new(());

fn schedule_dir() -> String {
    format!("{}/replays/c20-schedules-{}", root(), std::process::id())
}

fn signature_of(p: &str, s: &Scenario) -> String {
    let mix = if s.free_mix { "free_mix" } else { "quarantined_mix" };
    if let Some(rest) = p.split("C20DIVERGENCE|").nth(1) {
        format!("C20|divergence|{}|{}", rest.split('|').next().unwrap_or("unknown"), mix)
    } else {
        format!("C20|panic|{}|{}", normalise_panic(p), mix)
    }
}

fn short(s: &str) -> String {
    let mut x = s.to_string();
    trunc(&mut x, 160);
    x
}

struct Tally {
    scenarios: u64,
    executions: u64,
    interleavings: BTreeSet<u64>,
    nontrivial: BTreeSet<u64>,
    sites: BTreeMap<String, u64>,
    violations: BTreeMap<String, (u64, C20Replay, u64)>,
    ops: BTreeMap<String, u64>,
    foreign_solo_panics: u64,
}

fn run_scenario(seed: u64, index: u64, schedules: usize, tally: &mut Tally) {
    let s = gen_scenario(seed, index);
    for ops in s.threads.iter() {
        for op in ops {
            *tally.ops.entry(op.kind().to_string()).or_insert(0) += 1;
        }
    }
    let (solo_results, solo_files, solo_post) = match catch(|| solo(&s)) {
        Ok(x) => x,
        Err(_p) => {
            // the single-threaded run itself failed: not a scheduling matter. The property that owns
            // the operation reports it (e.g. C06 for related_text); here the scenario is skipped.
            tally.foreign_solo_panics += 1;
            return;
        }
    };
    let solo_results = Arc::new(solo_results);
    let solo_files = Arc::new(solo_files);
    let solo_post = Arc::new(solo_post);
    tally.scenarios += 1;
    let dir = schedule_dir();
    for (name, pct_depth) in [("random", 0usize), ("pct2", 2), ("pct3", 3)] {
        let n = if pct_depth == 0 { schedules } else { schedules / 3 };
        if n == 0 {
            continue;
        }
        let mut cfg = shuttle::Config::new();
        cfg.stack_size = 1 << 20;
        let _ = std::fs::create_dir_all(&dir);
        cfg.failure_persistence = shuttle::FailurePersistence::File(Some(std::path::PathBuf::from(&dir)));
        cfg.silence_warnings = true;
        let sc = s.clone();
        let sr = solo_results.clone();
        let sf = solo_files.clone();
        let sp = solo_post.clone();
        let sched_seed = rng::run_seed(seed, name, index);
        let r = catch(move || {
            let _r = SCHED_LOCK.read().unwrap_or_else(|e| e.into_inner());
            if pct_depth == 0 {
                let runner = shuttle::Runner::new(shuttle::scheduler::RandomScheduler::new_from_seed(sched_seed, n), cfg);
                runner.run(move || scenario_body(&sc, &sr, &sf, &sp));
            } else {
                let runner = shuttle::Runner::new(shuttle::scheduler::PctScheduler::new_from_seed(sched_seed, pct_depth, n), cfg);
                runner.run(move || scenario_body(&sc, &sr, &sf, &sp));
            }
        });
        if let Err(p) = r {
            let sig = signature_of(&p, &s);
            // capture the failing schedule: shuttle's panic hook keeps the configuration of the first
            // runner of the process, so all runners share one directory; the failing runner is
            // repeated (it is seeded, hence deterministic) while no other runner is in flight
            let schedule = {
                let _w = SCHED_LOCK.write().unwrap_or_else(|e| e.into_inner());
                let _ = std::fs::remove_dir_all(&dir);
                let _ = std::fs::create_dir_all(&dir);
                let sc = s.clone();
                let sr = solo_results.clone();
                let sf = solo_files.clone();
                let sp = solo_post.clone();
                let mut cfg = shuttle::Config::new();
                cfg.stack_size = 1 << 20;
                cfg.failure_persistence = shuttle::FailurePersistence::File(Some(std::path::PathBuf::from(&dir)));
                cfg.silence_warnings = true;
                // on a fresh OS thread: shuttle remembers per thread the length of the last schedule it
                // persisted and would skip an identical one
                let h = std::thread::Builder::new().stack_size(64 << 20).spawn(move || {
                    let _ = catch(move || {
                        if pct_depth == 0 {
                            shuttle::Runner::new(shuttle::scheduler::RandomScheduler::new_from_seed(sched_seed, n), cfg).run(move || scenario_body(&sc, &sr, &sf, &sp));
                        } else {
                            shuttle::Runner::new(shuttle::scheduler::PctScheduler::new_from_seed(sched_seed, pct_depth, n), cfg).run(move || scenario_body(&sc, &sr, &sf, &sp));
                        }
                    });
                    stam::verif_hooks::set_yield(None);
                    crate::simfs::SimFs::uninstall();
                });
                if let Ok(h) = h {
                    let _ = h.join();
                }
                stam::verif_hooks::set_yield(None);
                let mut found = String::new();
                if let Ok(rd) = std::fs::read_dir(&dir) {
                    let mut files: Vec<_> = rd.filter_map(|e| e.ok()).map(|e| e.path()).collect();
                    files.sort();
                    if let Some(f) = files.last() {
                        found = std::fs::read_to_string(f).unwrap_or_default();
                    }
                }
                found
            };
            let e = tally.violations.entry(sig.clone()).or_insert((
                index,
                C20Replay {
                    property: "C20".into(),
                    signature: sig,
                    seed,
                    scenario: s.clone(),
                    scheduler: name.into(),
                    schedule,
                    detail: short(&p),
                },
                0,
            ));
            e.2 += 1;
            // make sure no hook stays installed after a failed execution
            stam::verif_hooks::set_yield(None);
            break;
        }
    }
}

pub fn check(tier: &str) -> i32 {
    let start = Instant::now();
    let seed = verif_seed();
    let scenarios: u64 = std::env::var("VERIF_RUNS").ok().and_then(|s| s.parse().ok()).unwrap_or(if tier == "thorough" { 6000 } else { 320 });
    let schedules: usize = if tier == "thorough" { 300 } else { 90 };
    let nworkers = workers() as u64;
    println!("stamsim check property=C20 tier={} VERIF_SEED={} scenarios={} schedules/scenario={}x(random)+2x{}(pct) workers={}", tier, seed, scenarios, schedules, schedules / 3, nworkers);
    let merged = Mutex::new(Tally {
        scenarios: 0,
        executions: 0,
        interleavings: BTreeSet::new(),
        nontrivial: BTreeSet::new(),
        sites: BTreeMap::new(),
        violations: BTreeMap::new(),
        ops: BTreeMap::new(),
        foreign_solo_panics: 0,
    });
    std::thread::scope(|scope| {
        for w in 0..nworkers {
            let merged = &merged;
            std::thread::Builder::new()
                .stack_size(64 << 20)
                .spawn_scoped(scope, move || {
                    let mut tally = Tally {
                        scenarios: 0,
                        executions: 0,
                        interleavings: BTreeSet::new(),
                        nontrivial: BTreeSet::new(),
                        sites: BTreeMap::new(),
                        violations: BTreeMap::new(),
                        ops: BTreeMap::new(),
                        foreign_solo_panics: 0,
                    };
                    let mut i = w;
                    while i < scenarios {
                        run_scenario(seed, i, schedules, &mut tally);
                        i += nworkers;
                    }
                    tally.executions = EXECUTIONS.with(|e| *e.borrow());
                    tally.interleavings = INTERLEAVINGS.with(|s| s.borrow().clone());
                    tally.nontrivial = NONTRIVIAL.with(|s| s.borrow().clone());
                    SITES.with(|m| {
                        for (k, v) in m.borrow().iter() {
                            tally.sites.insert(k.to_string(), *v);
                        }
                    });
                    let mut m = merged.lock().unwrap();
                    m.scenarios += tally.scenarios;
                    m.foreign_solo_panics += tally.foreign_solo_panics;
                    m.executions += tally.executions;
                    m.interleavings.extend(tally.interleavings);
                    m.nontrivial.extend(tally.nontrivial);
                    for (k, v) in tally.sites {
                        *m.sites.entry(k).or_insert(0) += v;
                    }
                    for (k, v) in tally.ops {
                        *m.ops.entry(k).or_insert(0) += v;
                    }
                    for (sig, (idx, rf, count)) in tally.violations {
                        match m.violations.get_mut(&sig) {
                            Some(e) => {
                                e.2 += count;
                                if idx < e.0 {
                                    e.0 = idx;
                                    e.1 = rf;
                                }
                            }
                            None => {
                                m.violations.insert(sig, (idx, rf, count));
                            }
                        }
                    }
                })
                .expect("spawn");
        }
    });
    let tally = merged.into_inner().unwrap();
    let _ = std::fs::remove_dir_all(schedule_dir());
    let known = load_known_findings();
    let dir = format!("{}/replays", root());
    let _ = std::fs::create_dir_all(&dir);
    let mut new_violations = 0;
    let mut known_hit = Vec::new();
    for (sig, (idx, rf, count)) in tally.violations.iter() {
        let safe: String = sig.chars().map(|c| if c.is_ascii_alphanumeric() { c } else { '_' }).take(80).collect();
        let path = format!("{}/C20-{}-{}-{}.json", dir, seed, idx, safe);
        let _ = std::fs::write(&path, serde_json::to_string_pretty(rf).unwrap());
        if let Some(k) = known.iter().find(|k| k.status == "known" && k.property == "C20" && &k.signature == sig) {
            println!("KNOWN-FINDING: property=C20 {} [{}] ({} scenarios; replay={})", k.what, sig, count, path);
            known_hit.push(sig.clone());
        } else {
            new_violations += 1;
            println!("VIOLATION property=C20 replay={}", path);
            println!("  signature: {}", sig);
            println!("  scenario={} scheduler={} schedule={:?}", idx, rf.scheduler, rf.schedule.trim());
            println!("  {}", rf.detail);
        }
    }
    let wall = start.elapsed().as_secs_f64();
    write_evidence(tier, seed, &tally, new_violations, wall, &known_hit);
    println!(
        "scenarios={} executions={} distinct_interleavings={} nontrivial_interleavings={} wall={:.1}s executions/hour={:.0}",
        tally.scenarios,
        tally.executions,
        tally.interleavings.len(),
        tally.nontrivial.len(),
        wall,
        tally.executions as f64 / wall * 3600.0
    );
    if new_violations > 0 {
        1
    } else {
        println!("OK property=C20 held on everything explored");
        0
    }
}

fn write_evidence(tier: &str, seed: u64, t: &Tally, violations: usize, wall: f64, known_hit: &[String]) {
    use serde_json::json;
    let samples: Vec<serde_json::Value> = (0..3u64).map(|i| serde_json::to_value(gen_scenario(seed, i)).unwrap()).collect();
    let ev = json!({
        "property_id": "C20",
        "tier": tier,
        "seed": seed,
        "level": "exploration",
        "coverage": {
            "evaluations": t.executions,
            "distinct_nontrivial": t.nontrivial.len(),
            "rule": "one evaluation = one execution of a scenario (2-3 reader threads, 2-5 read operations each, on a seeded store with inline and stand-off members) under one shuttle schedule (seeded random, PCT depth 2 and 3); distinct = distinct hashes of the (thread, yield site) sequence; non-trivial = more context switches than threads",
            "samples": samples,
            "exhaustive": false,
            "scenarios": t.scenarios,
            "foreign_stops": t.foreign_solo_panics,
            "distinct_interleavings_all": t.interleavings.len(),
            "yield_sites_hit": t.sites,
            "reader_ops_by_kind": t.ops,
            "executions_per_hour": if wall > 0.0 { (t.executions as f64 / wall * 3600.0).round() } else { 0.0 },
            "simulated_time": "n/a: shuttle does not model time and the library reads no clock",
            "schedulers": ["shuttle RandomScheduler (seeded)", "shuttle PctScheduler depth 2", "shuttle PctScheduler depth 3"],
            "known_findings_seen": known_hit,
            "components": {
                "real": ["all of stam incl. its std::sync::RwLock cells, serde_json"],
                "stub": ["rayon work stealing (.parallel() is never invoked)", "file system: SimFs"],
                "seams": ["H2 yield points (serialize_mode.read/write, changed.read/mark/unmark)", "SimFs calls as yield points"]
            }
        },
        "assumptions": [
            "no yield site lies inside a lock guard's scope, so the library's std locks are never contended under the one-thread-at-a-time scheduler",
            "interference can only arise through the hooked interior-mutable cells (serialize_mode, changed flags) and the file system"
        ],
        "wall_s": wall,
        "violations": violations,
    });
    let dir = format!("{}/evidence", root());
    let _ = std::fs::create_dir_all(&dir);
    std::fs::write(format!("{}/C20.json", dir), serde_json::to_string_pretty(&ev).unwrap()).expect("write evidence");
}

pub fn replay(path: &str) -> i32 {
    let s = match std::fs::read_to_string(path) {
        Ok(s) => s,
        Err(e) => {
            println!("HARNESS-ERROR: cannot read {}: {}", path, e);
            return 2;
        }
    };
    let rf: C20Replay = match serde_json::from_str(&s) {
        Ok(r) => r,
        Err(e) => {
            println!("HARNESS-ERROR: cannot parse {}: {}", path, e);
            return 2;
        }
    };
    let sc = rf.scenario.clone();
    let (solo_results, solo_files, solo_post) = solo(&sc);
    let solo_results = Arc::new(solo_results);
    let solo_files = Arc::new(solo_files);
    let schedule = rf.schedule.clone();
    let r = catch(move || {
        let mut cfg = shuttle::Config::new();
        cfg.stack_size = 1 << 20;
        cfg.failure_persistence = shuttle::FailurePersistence::None;
        cfg.silence_warnings = true;
        let scheduler = shuttle::scheduler::ReplayScheduler::new_from_encoded(schedule.trim());
        let runner = shuttle::Runner::new(scheduler, cfg);
        runner.run(move || scenario_body(&sc, &solo_results, &solo_files, &solo_post));
    });
    match r {
        Ok(()) => {
            println!("replay of {}: no violation (does not reproduce on this tree)", path);
            0
        }
        Err(p) => {
            let sig = signature_of(&p, &rf.scenario);
            println!("{}", short(&p));
            if sig == rf.signature {
                println!("VIOLATION property=C20 replay={}", path);
                1
            } else {
                println!("HARNESS-ERROR: replay diverged: expected {} got {}", rf.signature, sig);
                2
            }
        }
    }
}
