//! Restarts through multi-file layouts: JSON with @include stand-off files, and CSV.

use crate::exec::*;
use crate::obs::Violation;
use crate::ops::Format;
use crate::restart::rebind_by_order;
use crate::world::{RunStats, World};
use stam::*;
use std::collections::BTreeMap;

fn safe_name(id: &str) -> String {
    id.chars()
        .map(|c| if c.is_ascii_alphanumeric() || c == '-' || c == '_' { c } else { '_' })
        .collect()
}

pub fn diff_files_pub(a: &BTreeMap<String, Vec<u8>>, b: &BTreeMap<String, Vec<u8>>) -> Option<String> {
    diff_files(a, b)
}

fn diff_files(a: &BTreeMap<String, Vec<u8>>, b: &BTreeMap<String, Vec<u8>>) -> Option<String> {
    for (k, v) in a.iter() {
        match b.get(k) {
            None => return Some(format!("file {} disappeared", k)),
            Some(w) => {
                if v != w {
                    let sa = String::from_utf8_lossy(v).to_string();
                    let sb = String::from_utf8_lossy(w).to_string();
                    return Some(format!("file {} differs: {}", k, crate::restart::first_diff(&sa, &sb)));
                }
            }
        }
    }
    for k in b.keys() {
        if !a.contains_key(k) {
            return Some(format!("file {} appeared", k));
        }
    }
    None
}

/// Give every live resource and dataset a stand-off file (absolute SimFs paths, so that the
/// reference survives later restarts whatever the work directory is)
pub fn assign_standoff_files(world: &mut World, json_resources: bool) -> Result<(), String> {
    let res: Vec<(usize, String, bool)> = world
        .store
        .resources()
        .map(|r| (r.handle().as_usize(), r.id().unwrap_or("").to_string(), r.as_ref().filename().is_some()))
        .collect();
    for (h, id, has) in res {
        // unspecified: a resource with empty text is never marked as changed by set_filename
        let empty = world.store.resource(TextResourceHandle::new(h)).map(|r| r.textlen() == 0).unwrap_or(true);
        if !has && !empty {
            let ext = if json_resources && h % 2 == 1 { "json" } else { "txt" };
            let name = format!("/sim/inc/{}.{}", safe_name(&id), ext);
            let r: &mut TextResource = <AnnotationStore as StoreFor<TextResource>>::get_mut(&mut world.store, TextResourceHandle::new(h))
                .map_err(|e| format!("{}", e))?;
            r.set_filename(&name);
        }
    }
    let sets: Vec<(usize, String, bool)> = world
        .store
        .datasets()
        .map(|r| (r.handle().as_usize(), r.id().unwrap_or("").to_string(), r.as_ref().filename().is_some()))
        .collect();
    for (h, id, has) in sets {
        if !has {
            let name = format!("/sim/inc/{}.annotationset.stam.json", safe_name(&id));
            let s: &mut AnnotationDataSet = <AnnotationStore as StoreFor<AnnotationDataSet>>::get_mut(&mut world.store, AnnotationDataSetHandle::new(h))
                .map_err(|e| format!("{}", e))?;
            s.set_filename(&name);
        }
    }
    Ok(())
}

pub fn restart_json_include(world: &mut World, stats: &mut RunStats) -> (ExecResult, Vec<Violation>) {
    restart_json_include_opts(world, stats, true)
}

pub fn restart_json_include_opts(world: &mut World, stats: &mut RunStats, json_resources: bool) -> (ExecResult, Vec<Violation>) {
    let mut violations = Vec::new();
    let n = world.restart_count;
    let path = format!("/sim/j{}/store.store.stam.json", n);
    stats.probe("restart_json_include");
    let r = catch(|| -> Result<(), String> {
        assign_standoff_files(world, json_resources)?;
        world.store.set_filename(&path);
        world.store.save().map_err(|e| format!("{}", e))
    });
    match r {
        Ok(Ok(())) => {}
        Ok(Err(e)) => return (ExecResult::Err(format!("save: {}", e)), violations),
        Err(p) => return (ExecResult::Panic(format!("save: {}", p)), violations),
    }
    let first = world.fs.snapshot();
    if first.keys().any(|k| k.starts_with("/sim/inc/")) {
        stats.probe("include_file_written");
    }
    // reload under the same output settings as the store was written with
    let cfg = world.cfg.config().with_dataformat(world.store.config().dataformat());
    let new = match catch(|| AnnotationStore::from_file(&path, cfg)) {
        Ok(Ok(s)) => s,
        Ok(Err(e)) => {
            let main = String::from_utf8_lossy(first.get(&path).map(|v| &v[..]).unwrap_or(b"")).to_string();
            let mut snippet = main;
            trunc(&mut snippet, 300);
            return (ExecResult::Err(format!("load: {} -- files {:?} -- {}", e, first.keys().collect::<Vec<_>>(), snippet)), violations);
        }
        Err(p) => return (ExecResult::Panic(format!("load: {}", p)), violations),
    };
    violations.append(&mut rebind_by_order(world, &new, Format::JsonInclude));
    // writing the reloaded store again produces identical files (all of them)
    match catch(|| new.save()) {
        Ok(Ok(())) => {
            let second = world.fs.snapshot();
            if let Some(d) = diff_files(&first, &second) {
                violations.push(Violation::new("C05", "mismatch", "reserialise.json_include", d));
            }
        }
        Ok(Err(e)) => violations.push(Violation::new("C05", "outcome", "reserialise.json_include", format!("{}", e))),
        Err(p) => violations.push(Violation::new("C05", "panic", "reserialise.json_include", normalise_panic(&p))),
    }
    world.store = new;
    (ExecResult::Ok(None), violations)
}

pub fn restart_csv(world: &mut World, stats: &mut RunStats) -> (ExecResult, Vec<Violation>) {
    restart_csv_opts(world, stats, false)
}

/// the save half of a JSON restart with stand-off files: the store lives on
pub fn checkpoint_json_include(world: &mut World) -> ExecResult {
    let path = "/sim/jcheckpoint/store.store.stam.json".to_string();
    let r = catch(|| -> Result<(), String> {
        assign_standoff_files(world, false)?;
        world.store.set_filename(&path);
        world.store.save().map_err(|e| format!("{}", e))
    });
    match r {
        Ok(Ok(())) => ExecResult::Ok(None),
        Ok(Err(e)) => ExecResult::Err(format!("save: {}", e)),
        Err(p) => ExecResult::Panic(format!("save: {}", p)),
    }
}

/// `save_only`: a checkpoint - the files are written, the store is not reloaded
pub fn restart_csv_opts(world: &mut World, stats: &mut RunStats, save_only: bool) -> (ExecResult, Vec<Violation>) {
    let mut violations = Vec::new();
    let n = world.restart_count;
    // one place for the whole run, as a user would: files of unchanged items are not rewritten
    let path = "/sim/csv/store.store.stam.csv".to_string();
    stats.probe("restart_csv");
    // unspecified (see DESIGN.md): a resource with empty text is never marked as changed by
    // set_filename, so its stand-off file is never written; such stores are not restarted as CSV
    let has_unnamed_empty = world
        .store
        .resources()
        .any(|r| r.as_ref().filename().is_none() && r.textlen() == 0);
    if has_unnamed_empty {
        stats.probe("restart_csv_skipped:empty_text_resource");
        return (ExecResult::Ok(None), violations);
    }
    let r = catch(|| -> Result<(), String> {
        world.store.set_filename(&path);
        // the format's stated precondition: every resource and dataset has a filename. set_dataformat
        // names those that came from another format; items added after a CSV load are named here.
        let res: Vec<(usize, String)> = world
            .store
            .resources()
            .filter(|r| r.as_ref().filename().is_none())
            .map(|r| (r.handle().as_usize(), r.id().unwrap_or("").to_string()))
            .collect();
        for (h, id) in res {
            let name = format!("/sim/csv/r{}_{}_{}.txt", n, h, safe_name(&id));
            let r: &mut TextResource = <AnnotationStore as StoreFor<TextResource>>::get_mut(&mut world.store, TextResourceHandle::new(h))
                .map_err(|e| format!("{}", e))?;
            r.set_filename(&name);
        }
        let sets: Vec<(usize, String)> = world
            .store
            .datasets()
            .filter(|r| r.as_ref().filename().is_none())
            .map(|r| (r.handle().as_usize(), r.id().unwrap_or("").to_string()))
            .collect();
        for (h, id) in sets {
            let name = format!("/sim/csv/s{}_{}_{}.annotationset.stam.csv", n, h, safe_name(&id));
            let r: &mut AnnotationDataSet = <AnnotationStore as StoreFor<AnnotationDataSet>>::get_mut(&mut world.store, AnnotationDataSetHandle::new(h))
                .map_err(|e| format!("{}", e))?;
            r.set_filename(&name);
        }
        world.store.save().map_err(|e| format!("{}", e))
    });
    match r {
        Ok(Ok(())) => {}
        Ok(Err(e)) => return (ExecResult::Err(format!("save: {}", e)), violations),
        Err(p) => return (ExecResult::Panic(format!("save: {}", p)), violations),
    }
    if save_only {
        return (ExecResult::Ok(None), violations);
    }
    let files = world.fs.snapshot();
    if std::env::var("VERIF_DUMP_FS").is_ok() {
        for (k, v) in files.iter().filter(|(k, _)| k.contains("/csv/")) {
            println!("[{}]\n{}", k, String::from_utf8_lossy(v));
        }
    }
    let cfg = world.cfg.config();
    let new = match catch(|| AnnotationStore::from_file(&path, cfg)) {
        Ok(Ok(s)) => s,
        Ok(Err(e)) => {
            let mut dump = String::new();
            for (k, v) in files.iter().filter(|(k, _)| k.contains("/csv/")) {
                dump += &format!("[{}]\n{}\n", k, String::from_utf8_lossy(v));
            }
            trunc(&mut dump, 600);
            return (ExecResult::Err(format!("load: {} -- {}", e, dump)), violations);
        }
        Err(p) => return (ExecResult::Panic(format!("load: {}", p)), violations),
    };
    // the format stores values as text: the model follows
    for s in world.model.datasets.iter_mut() {
        for d in s.data.iter_mut() {
            d.value = crate::ops::Val::Str(d.value.to_datavalue().to_string());
        }
    }
    violations.append(&mut rebind_by_order(world, &new, Format::Csv));
    world.store = new;
    (ExecResult::Ok(None), violations)
}
