//! Restarts through multi-file layouts: JSON with @include stand-off files, and CSV.

use crate::exec::*;
use crate::obs::Violation;
use crate::world::{RunStats, World};

pub fn restart_json_include(_world: &mut World, _stats: &mut RunStats) -> (ExecResult, Vec<Violation>) {
    (ExecResult::Err("restart_json_include not implemented".into()), Vec::new())
}

pub fn restart_csv(_world: &mut World, _stats: &mut RunStats) -> (ExecResult, Vec<Violation>) {
    (ExecResult::Err("restart_csv not implemented".into()), Vec::new())
}
