//! The only source of randomness in the simulator: splitmix64-seeded xoshiro256**.
//! Every run derives all of its choices from `run_seed(VERIF_SEED, engine, run index)`.

#[derive(Clone, Debug)]
pub struct Rng {
    s: [u64; 4],
}

pub fn splitmix64(x: &mut u64) -> u64 {
    *x = x.wrapping_add(0x9E3779B97F4A7C15);
    let mut z = *x;
    z = (z ^ (z >> 30)).wrapping_mul(0xBF58476D1CE4E5B9);
    z = (z ^ (z >> 27)).wrapping_mul(0x94D049BB133111EB);
    z ^ (z >> 31)
}

/// FNV-1a over a label, used to derive labelled sub-streams
pub fn label_hash(label: &str) -> u64 {
    let mut h: u64 = 0xcbf29ce484222325;
    for b in label.as_bytes() {
        h ^= *b as u64;
        h = h.wrapping_mul(0x100000001b3);
    }
    h
}

pub fn run_seed(verif_seed: u64, engine: &str, index: u64) -> u64 {
    let mut x = verif_seed ^ label_hash(engine).rotate_left(17);
    let a = splitmix64(&mut x);
    let mut y = a ^ index.wrapping_mul(0xD6E8FEB86659FD93);
    splitmix64(&mut y)
}

impl Rng {
    pub fn new(seed: u64) -> Self {
        let mut x = seed;
        let s = [
            splitmix64(&mut x),
            splitmix64(&mut x),
            splitmix64(&mut x),
            splitmix64(&mut x),
        ];
        Rng { s }
    }

    /// A labelled sub-stream, so that e.g. changing the fault plan does not re-randomise the workload
    pub fn sub(seed: u64, label: &str) -> Self {
        Rng::new(seed ^ label_hash(label))
    }

    pub fn next_u64(&mut self) -> u64 {
        let result = self.s[1].wrapping_mul(5).rotate_left(7).wrapping_mul(9);
        let t = self.s[1] << 17;
        self.s[2] ^= self.s[0];
        self.s[3] ^= self.s[1];
        self.s[1] ^= self.s[2];
        self.s[0] ^= self.s[3];
        self.s[2] ^= t;
        self.s[3] = self.s[3].rotate_left(45);
        result
    }

    /// uniform in 0..n (n > 0)
    pub fn below(&mut self, n: usize) -> usize {
        debug_assert!(n > 0);
        (self.next_u64() % (n as u64)) as usize
    }

    /// uniform in lo..=hi
    pub fn range(&mut self, lo: usize, hi: usize) -> usize {
        lo + self.below(hi - lo + 1)
    }

    /// true with probability num/den
    pub fn chance(&mut self, num: usize, den: usize) -> bool {
        self.below(den) < num
    }

    pub fn pick<'a, T>(&mut self, items: &'a [T]) -> &'a T {
        &items[self.below(items.len())]
    }

    /// weighted choice: returns index
    pub fn weighted(&mut self, weights: &[usize]) -> usize {
        let total: usize = weights.iter().sum();
        debug_assert!(total > 0);
        let mut x = self.below(total);
        for (i, w) in weights.iter().enumerate() {
            if x < *w {
                return i;
            }
            x -= *w;
        }
        weights.len() - 1
    }

    pub fn shuffle<T>(&mut self, items: &mut [T]) {
        for i in (1..items.len()).rev() {
            let j = self.below(i + 1);
            items.swap(i, j);
        }
    }
}
