//! Evidence files: what a check run actually covered (schema: /root/.vp/EVIDENCE.schema.json)

use crate::profiles::Profile;
use crate::runner::{root, Aggregate};
use serde_json::{json, Value};

pub fn components() -> Value {
    json!({
        "real": [
            "stam::AnnotationStore and everything below it (all of /repo/src), built from the working tree with --cfg stam_verif",
            "serde_json, minicbor, csv, regex, chrono, smallvec (real dependency code)"
        ],
        "stub": [
            "file system: SimFs, an in-memory map behind stam's file helpers (hook H1); std::fs paths in src/file.rs do not run",
            "rayon work stealing (never invoked by the simulator)"
        ],
        "seams": [
            "H1 storage seam (open_file_reader/open_file_writer + three call sites in resources.rs)",
            "H2 scheduling points at serialize_mode and changed-flag accesses",
            "H3 generated-id source",
            "H4 fixed-seed hasher in IdMap",
            "H5 read-only dumps of reverse indices"
        ]
    })
}

pub fn write_state_evidence(
    profile: &Profile,
    tier: &str,
    seed: u64,
    runs: u64,
    agg: &Aggregate,
    violations: usize,
    wall: f64,
    known_hit: &[String],
) {
    let samples: Vec<Value> = agg
        .samples
        .iter()
        .take(3)
        .map(|(i, t)| json!({"run": i, "world": t.world, "ops": t.ops}))
        .collect();
    let zero_probes: Vec<&str> = expected_probes(profile.property)
        .into_iter()
        .filter(|p| agg.probes.get(*p).copied().unwrap_or(0) == 0)
        .collect();
    let ev = json!({
        "property_id": profile.property,
        "tier": tier,
        "seed": seed,
        "level": profile.level,
        "coverage": {
            "evaluations": agg.runs,
            "distinct_nontrivial": agg.nontrivial_fingerprints.len(),
            "rule": profile.rule,
            "samples": samples,
            "exhaustive": false,
            "runs": agg.runs,
            "nontrivial_runs": agg.nontrivial_runs,
            "steps": agg.steps,
            "distinct_states_all_runs": agg.all_fingerprints.len(),
            "distinct_op_kind_bigrams": agg.bigrams.len(),
            "runs_per_hour": if wall > 0.0 { (agg.runs as f64 / wall * 3600.0).round() } else { 0.0 },
            "seeds": format!("run_seed(VERIF_SEED={}, \"{}\", i) for i in 0..{}", seed, profile.property, runs),
            "simulated_time": "n/a: the library reads no clock on any claimed path; progress is counted in logical steps",
            "ops_by_kind": agg.ops_by_kind,
            "outcomes": agg.outcomes,
            "faults_fired_by_kind": agg.faults_fired,
            "probes": agg.probes,
            "probes_stuck_at_zero": zero_probes,
            "restarts": agg.restarts,
            "skipped_unspecified_ops": agg.skipped_ops,
            "suppressed_by_quarantine": agg.suppressed_ops,
            "foreign_stops": agg.foreign_stops,
            "foreign_signatures": agg.foreign_signatures,
            "known_findings_seen": known_hit,
            "event_log_digest": format!("{:016x}", agg.digest),
            "components": components(),
        },
        "assumptions": [
            "the reference model encodes the documented behaviour; open questions are skipped (model returns Skip) rather than asserted",
            "serde_json, minicbor, csv, regex are trusted",
            "a clean batch is evidence, not proof: seeded sampling within the stated bounds (texts <= 40 codepoints, <= 50 operations per run)"
        ],
        "wall_s": wall,
        "violations": violations,
    });
    let dir = format!("{}/evidence", root());
    let _ = std::fs::create_dir_all(&dir);
    let path = format!("{}/{}.json", dir, profile.property);
    std::fs::write(&path, serde_json::to_string_pretty(&ev).expect("evidence json")).expect("write evidence");
}

fn expected_probes(property: &str) -> Vec<&'static str> {
    match property {
        "C01" => vec!["cascade_depth>=1", "data_dedup_hit", "remove_key_ok"],
        "C02" => vec!["cascade_depth>=2", "shared_data_nonstrict_survivor", "remove_key_ok", "remove_nonexistent"],
        "C10" => vec!["data_dedup_hit", "implicit_dataset_created", "remove_key_ok"],
        "C14" => vec!["invalid_request_refused"],
        _ => vec![],
    }
}
