//! C03, merge route: identifiers after a merge. At the end of a run the store's own JSON, with some
//! of its items redefined (a data item with another value, a dataset with a further key and data item)
//! and without its annotations, is merged into a copy of the store (`with_file` on a loaded store),
//! which exercises the merge-mode branches of insertion (an id that is in use by a live, non-identical
//! item). Afterwards every identifier of the merged store must resolve to exactly the item that carries
//! it - also after one more insertion of each kind, which is when a stale id-map entry that points just
//! beyond the end of a store gets taken over by another item - and the model-free consistency checks
//! must pass. The world's own store is not touched.

use crate::exec::{catch, normalise_panic};
use crate::model::Model;
use crate::obs::{Checker, Violation};
use crate::rng::Rng;
use crate::world::{RunStats, World};
use stam::*;

const OTHER: &str = "/sim/merge/other.store.stam.json";

/// every identifier resolves to the item that carries it
fn ids_resolve(store: &AnnotationStore, when: &str, out: &mut Vec<Violation>) {
    let r = catch(|| {
        let mut bad: Vec<String> = Vec::new();
        for res in store.resources() {
            if let Some(id) = res.id() {
                match store.resource(id) {
                    Some(x) if x.handle() == res.handle() => {}
                    other => bad.push(format!("resource id {:?} (handle {}) resolves to {:?}", id, res.handle().as_usize(), other.map(|x| x.handle().as_usize()))),
                }
            }
        }
        for a in store.annotations() {
            if let Some(id) = a.id() {
                match store.annotation(id) {
                    Some(x) if x.handle() == a.handle() => {}
                    other => bad.push(format!("annotation id {:?} (handle {}) resolves to {:?}", id, a.handle().as_usize(), other.map(|x| x.handle().as_usize()))),
                }
            }
        }
        for ds in store.datasets() {
            if let Some(id) = ds.id() {
                match store.dataset(id) {
                    Some(x) if x.handle() == ds.handle() => {}
                    other => bad.push(format!("dataset id {:?} (handle {}) resolves to {:?}", id, ds.handle().as_usize(), other.map(|x| x.handle().as_usize()))),
                }
            }
            for k in ds.keys() {
                if let Some(id) = k.id() {
                    match ds.key(id) {
                        Some(x) if x.handle() == k.handle() => {}
                        other => bad.push(format!("key id {:?} (handle {}) in set {:?} resolves to {:?}", id, k.handle().as_usize(), ds.id(), other.map(|x| x.handle().as_usize()))),
                    }
                }
            }
            for d in ds.data() {
                if let Some(id) = d.id() {
                    match ds.annotationdata(id) {
                        Some(x) if x.handle() == d.handle() => {}
                        other => bad.push(format!("data id {:?} (handle {}) in set {:?} resolves to {:?}", id, d.handle().as_usize(), ds.id(), other.map(|x| x.handle().as_usize()))),
                    }
                }
            }
        }
        bad
    });
    match r {
        Ok(bad) => {
            if let Some(first) = bad.first() {
                out.push(Violation::new("C03", "mismatch", format!("merge:ids.lookup.{}", when), format!("{} ({} ids in all)", first, bad.len())));
            }
        }
        Err(p) => out.push(Violation::new("C03", "panic", format!("merge:ids.lookup.{}", when), normalise_panic(&p))),
    }
}

pub fn merge_phase(world: &mut World, seed: u64, stats: &mut RunStats) -> Vec<Violation> {
    let mut out = Vec::new();
    let mut rng = Rng::new(seed);
    // inline stores only: with stand-off members the text would name files of the world's own save
    let standoff = world.store.resources().any(|r| r.as_ref().filename().is_some()) || world.store.datasets().any(|d| d.as_ref().filename().is_some());
    if standoff {
        stats.probe("merge_phase_skipped:standoff_members");
        return out;
    }
    let cfg = Config::new();
    let json = match catch(|| world.store.to_json_string(&cfg)) {
        Ok(Ok(s)) => s,
        _ => {
            stats.probe("merge_phase_skipped:not_serialisable");
            return out;
        }
    };
    let mut v: serde_json::Value = match serde_json::from_str(&json) {
        Ok(v) => v,
        Err(_) => return out,
    };
    // the other file: the same resources and datasets, some items redefined, no annotations
    let mut redefined = 0usize;
    if let Some(obj) = v.as_object_mut() {
        obj.insert("annotations".to_string(), serde_json::Value::Array(vec![]));
        if let Some(sets) = obj.get_mut("annotationsets").and_then(|s| s.as_array_mut()) {
            for set in sets.iter_mut() {
                let Some(set) = set.as_object_mut() else { continue };
                if set.contains_key("@include") {
                    continue;
                }
                if let Some(data) = set.get_mut("data").and_then(|d| d.as_array_mut()) {
                    let with_id: Vec<usize> = data
                        .iter()
                        .enumerate()
                        .filter(|(_, d)| d.get("@id").and_then(|i| i.as_str()).map(|i| !i.starts_with('!')).unwrap_or(false))
                        .map(|(i, _)| i)
                        .collect();
                    if !with_id.is_empty() && rng.chance(2, 3) {
                        let i = *rng.pick(&with_id);
                        data[i]["value"] = serde_json::json!({"@type": "String", "value": "merged-other-value"});
                        redefined += 1;
                    }
                    if rng.chance(2, 3) {
                        data.push(serde_json::json!({"@type": "AnnotationData", "@id": "merge-new-data", "key": "merge-new-key", "value": {"@type": "Null"}}));
                        redefined += 1;
                    }
                }
                if let Some(keys) = set.get_mut("keys").and_then(|d| d.as_array_mut()) {
                    keys.push(serde_json::json!({"@type": "DataKey", "@id": "merge-new-key"}));
                }
            }
        }
    }
    if redefined == 0 {
        stats.probe("merge_phase_skipped:nothing_to_redefine");
        return out;
    }
    let other = serde_json::to_string_pretty(&v).unwrap_or_default();
    world.fs.put(OTHER, other.as_bytes());
    let merged = catch(|| -> Result<AnnotationStore, String> {
        let copy = AnnotationStore::from_str(&json, Config::new()).map_err(|e| format!("copy: {}", e))?;
        copy.with_file(OTHER).map_err(|e| format!("merge: {}", e))
    });
    let mut store = match merged {
        Ok(Ok(s)) => s,
        Ok(Err(e)) => {
            if e.starts_with("copy:") {
                stats.probe("merge_phase_skipped:copy_does_not_load");
            } else {
                // the file redefines items of a store the library wrote itself: a refusal is a legitimate outcome
                stats.probe("merge_phase_refused");
            }
            return out;
        }
        Err(p) => {
            out.push(Violation::new("C03", "panic", "merge:with_file", normalise_panic(&p)));
            return out;
        }
    };
    stats.probe("merge_phase_merged");
    ids_resolve(&store, "after_merge", &mut out);
    if out.is_empty() {
        let model = Model::new();
        let mut c = Checker::new(&store, &model);
        c.limit = 3;
        c.check_no_dangling(true);
        if c.out.is_empty() {
            c.check_dump();
        }
        for mut viol in c.out.into_iter().filter(|v| v.owner == "C03") {
            viol.key = format!("merge:{}", viol.key);
            out.push(viol);
        }
    }
    if !out.is_empty() {
        return out;
    }
    // one more insertion of each kind: a stale entry that points just beyond the end of a store is taken over now
    let first_resource = store.resources().next().and_then(|r| r.id().map(|s| s.to_string()));
    let first_set = store.datasets().next().and_then(|d| d.id().map(|s| s.to_string()));
    let later = catch(|| -> Result<(), StamError> {
        store.add_dataset(AnnotationDataSetBuilder::new().with_id("merge-later-set"))?;
        store.add_resource(TextResourceBuilder::new().with_id("merge-later-resource").with_text("later"))?;
        if let (Some(r), Some(s)) = (first_resource, first_set) {
            store.annotate(
                AnnotationBuilder::new()
                    .with_id("merge-later-annotation")
                    .with_target(SelectorBuilder::resourceselector(r))
                    .with_data_with_id(s, "merge-later-key", "v", "merge-later-data"),
            )?;
        }
        Ok(())
    });
    match later {
        Ok(Ok(())) => ids_resolve(&store, "after_next_insertion", &mut out),
        Ok(Err(_)) => stats.probe("merge_phase_later_insertion_refused"),
        Err(p) => out.push(Violation::new("C03", "panic", "merge:later_insertion", normalise_panic(&p))),
    }
    out
}
