//! Oracles evaluated after every step: model refinement (public API answers vs. the model's
//! scans) and model-free self-consistency (raw index dump vs. indices recomputed from the
//! store's own forward references). Every violation is tagged with the property that owns it.

use crate::ops::Val;
use crate::exec::catch;
use crate::model::*;
use stam::*;
use std::collections::{BTreeMap, BTreeSet};

#[derive(Clone, Debug, PartialEq)]
pub struct Violation {
    /// owning property
    pub owner: &'static str,
    /// outcome, panic, missing, extra, duplicate, order, mismatch, divergence, dangling
    pub class: &'static str,
    /// observation key (stable, no instance data)
    pub key: String,
    /// human readable detail (instance data)
    pub detail: String,
    /// a second property that this violation also breaks (e.g. a failed request that unregisters
    /// a live item's id breaks both C14 and C03)
    pub also: Option<&'static str>,
}

impl Violation {
    pub fn new(owner: &'static str, class: &'static str, key: impl Into<String>, detail: impl Into<String>) -> Self {
        Violation {
            owner,
            class,
            key: key.into(),
            detail: detail.into(),
            also: None,
        }
    }
    pub fn owned_by(&self, owners: &[&str]) -> bool {
        owners.contains(&self.owner) || self.also.map(|a| owners.contains(&a)).unwrap_or(false)
    }
    pub fn signature(&self) -> String {
        format!("{}|{}|{}", self.owner, self.class, self.key)
    }
}

pub struct Checker<'a> {
    pub store: &'a AnnotationStore,
    pub model: &'a Model,
    pub out: Vec<Violation>,
    /// stop after this many violations
    pub limit: usize,
}

fn ah(h: usize) -> AnnotationHandle {
    AnnotationHandle::new(h)
}
fn rh(h: usize) -> TextResourceHandle {
    TextResourceHandle::new(h)
}
fn sh(h: usize) -> AnnotationDataSetHandle {
    AnnotationDataSetHandle::new(h)
}
fn kh(h: usize) -> DataKeyHandle {
    DataKeyHandle::new(h)
}
fn dh(h: usize) -> AnnotationDataHandle {
    AnnotationDataHandle::new(h)
}

/// classify the difference between an expected and an observed sequence
fn diff_class<T: Ord + Clone + std::fmt::Debug>(expected: &[T], got: &[T]) -> Option<(&'static str, String)> {
    if expected == got {
        return None;
    }
    let mut e = expected.to_vec();
    let mut g = got.to_vec();
    e.sort();
    g.sort();
    if e == g {
        return Some(("order", format!("expected {:?} got {:?}", expected, got)));
    }
    let es: BTreeSet<T> = e.iter().cloned().collect();
    let gs: BTreeSet<T> = g.iter().cloned().collect();
    if es == gs {
        return Some(("duplicate", format!("expected {:?} got {:?}", expected, got)));
    }
    if gs.is_subset(&es) {
        return Some(("missing", format!("expected {:?} got {:?}", expected, got)));
    }
    if es.is_subset(&gs) {
        return Some(("extra", format!("expected {:?} got {:?}", expected, got)));
    }
    Some(("mismatch", format!("expected {:?} got {:?}", expected, got)))
}

impl<'a> Checker<'a> {
    pub fn new(store: &'a AnnotationStore, model: &'a Model) -> Self {
        Checker {
            store,
            model,
            out: Vec::new(),
            limit: 8,
        }
    }

    fn full(&self) -> bool {
        self.out.len() >= self.limit
    }

    fn push(&mut self, owner: &'static str, class: &'static str, key: &str, detail: String) {
        if !self.full() {
            self.out.push(Violation::new(owner, class, key, detail));
        }
    }

    fn cmp_seq<T: Ord + Clone + std::fmt::Debug>(
        &mut self,
        owner: &'static str,
        key: &str,
        ctx: &str,
        expected: &[T],
        got: &[T],
    ) {
        if let Some((class, d)) = diff_class(expected, got) {
            self.push(owner, class, key, format!("{}: {}", ctx, d));
        }
    }

    /// as multisets (order irrelevant)
    fn cmp_multiset<T: Ord + Clone + std::fmt::Debug>(
        &mut self,
        owner: &'static str,
        key: &str,
        ctx: &str,
        expected: &[T],
        got: &[T],
    ) {
        let mut e = expected.to_vec();
        let mut g = got.to_vec();
        e.sort();
        g.sort();
        if let Some((class, d)) = diff_class(&e, &g) {
            self.push(owner, class, key, format!("{}: {}", ctx, d));
        }
    }

    fn guarded<T>(&mut self, owner: &'static str, key: &str, ctx: &str, f: impl FnOnce() -> T) -> Option<T> {
        match catch(f) {
            Ok(v) => Some(v),
            Err(p) => {
                self.push(
                    owner,
                    "panic",
                    key,
                    format!("{}: {}", ctx, crate::exec::normalise_panic(&p)),
                );
                None
            }
        }
    }

    fn ann_handles(&self, uids: &[Uid]) -> Vec<usize> {
        uids.iter().map(|u| self.model.annotations[*u].handle).collect()
    }

    // ------------------------------------------------------------------ C02: live item sets

    /// live item sets equal the model's (handles), for every kind
    pub fn check_live_sets(&mut self) {
        let store = self.store;
        let m = self.model;
        let exp: Vec<usize> = m.annotations.iter().filter(|a| a.live).map(|a| a.handle).collect();
        if let Some(got) = self.guarded("C02", "store.annotations", "", || {
            store.annotations().map(|a| a.handle().as_usize()).collect::<Vec<_>>()
        }) {
            self.cmp_seq("C02", "store.annotations", "live annotation handles", &exp, &got);
        }
        let exp: Vec<(usize, String)> = m
            .resources
            .iter()
            .filter(|r| r.live)
            .map(|r| (r.handle, r.id.clone()))
            .collect();
        if let Some(got) = self.guarded("C02", "store.resources", "", || {
            store
                .resources()
                .map(|r| (r.handle().as_usize(), r.id().unwrap_or("").to_string()))
                .collect::<Vec<_>>()
        }) {
            self.cmp_seq("C02", "store.resources", "live resources", &exp, &got);
        }
        let exp: Vec<(usize, String)> = m
            .datasets
            .iter()
            .filter(|r| r.live)
            .map(|r| (r.handle, r.id.clone()))
            .collect();
        if let Some(got) = self.guarded("C02", "store.datasets", "", || {
            store
                .datasets()
                .map(|r| (r.handle().as_usize(), r.id().unwrap_or("").to_string()))
                .collect::<Vec<_>>()
        }) {
            self.cmp_seq("C02", "store.datasets", "live datasets", &exp, &got);
        }
        for (_su, set) in m.datasets.iter().enumerate().filter(|(_, s)| s.live) {
            if self.full() {
                return;
            }
            let Some(ds) = store.dataset(sh(set.handle)) else {
                continue;
            };
            let exp: Vec<(usize, String)> = set
                .keys
                .iter()
                .filter(|k| k.live)
                .map(|k| (k.handle, k.id.clone()))
                .collect();
            if let Some(got) = self.guarded("C02", "dataset.keys", &set.id, || {
                ds.keys()
                    .map(|k| (k.handle().as_usize(), k.as_str().to_string()))
                    .collect::<Vec<_>>()
            }) {
                self.cmp_seq("C02", "dataset.keys", &set.id, &exp, &got);
            }
            let exp: Vec<(usize, Option<String>, usize)> = set
                .data
                .iter()
                .filter(|d| d.live)
                .map(|d| (d.handle, d.id.clone(), set.keys[d.key].handle))
                .collect();
            if let Some(got) = self.guarded("C02", "dataset.data", &set.id, || {
                ds.data()
                    .map(|d| {
                        (
                            d.handle().as_usize(),
                            d.id().map(|s| s.to_string()),
                            d.as_ref().key().as_usize(),
                        )
                    })
                    .collect::<Vec<_>>()
            }) {
                self.cmp_seq("C02", "dataset.data", &set.id, &exp, &got);
            }
            // values
            for d in set.data.iter().filter(|d| d.live) {
                if let Some(item) = ds.annotationdata(dh(d.handle)) {
                    let want = d.value.to_datavalue();
                    // equality of datetimes compares instants only; the written form (what a user reads and what is
                    // exported) also has the offset, so the textual forms must agree as well
                    if *item.value() != want || item.value().to_string() != want.to_string() {
                        self.push(
                            "C10",
                            "mismatch",
                            "data.value",
                            format!("set {} data {}: expected {:?} (written {:?}) got {:?} (written {:?})", set.id, d.handle, d.value, want.to_string(), item.value(), item.value().to_string()),
                        );
                    }
                }
            }
        }
        // texts
        for r in m.resources.iter().filter(|r| r.live) {
            if let Some(res) = store.resource(rh(r.handle)) {
                let text: String = r.text.iter().collect();
                if res.text() != text {
                    self.push("C02", "mismatch", "resource.text", format!("resource {}", r.id));
                }
                if res.textlen() != r.text.len() {
                    self.push("C02", "mismatch", "resource.textlen", format!("resource {}", r.id));
                }
            }
        }
    }

    // ------------------------------------------------------------------ C02: nothing dangles

    /// model-free: every forward reference of every live annotation resolves; iterating and
    /// serialising cannot fail
    pub fn check_no_dangling(&mut self, serialise: bool) {
        let store = self.store;
        let r = catch(|| {
            let mut problems: Vec<(String, String)> = Vec::new();
            for ann in store.annotations() {
                let a = ann.as_ref();
                let h = ann.handle().as_usize();
                for (s, d) in a.raw_data() {
                    match store.dataset(*s) {
                        None => problems.push(("annotation.data.set".into(), format!("annotation {} refers to missing set {:?}", h, s))),
                        Some(set) => {
                            if set.annotationdata(*d).is_none() {
                                problems.push(("annotation.data.item".into(), format!("annotation {} refers to missing data {:?} in set {:?}", h, d, s)));
                            }
                        }
                    }
                }
                let mut stack: Vec<&Selector> = vec![a.target()];
                while let Some(sel) = stack.pop() {
                    match sel {
                        Selector::TextSelector(res, tsel, _) => {
                            match store.resource(*res) {
                                None => problems.push(("target.resource".into(), format!("annotation {} TextSelector on missing resource {:?}", h, res))),
                                Some(resource) => {
                                    let ts: Result<&TextSelection, _> = resource.as_ref().get(*tsel);
                                    if ts.is_err() {
                                        problems.push(("target.textselection".into(), format!("annotation {} missing textselection {:?}", h, tsel)));
                                    }
                                }
                            }
                        }
                        Selector::AnnotationSelector(t, text) => {
                            if store.annotation(*t).is_none() {
                                problems.push(("target.annotation".into(), format!("annotation {} targets missing annotation {:?}", h, t)));
                            }
                            if t.as_usize() >= h {
                                // an annotation can only be built on annotations that already exist: anything else is a cycle in the making
                                problems.push(("target.annotation.forward".into(), format!("annotation {} targets annotation {:?} which is not older than itself", h, t)));
                            }
                            if let Some((res, tsel, _)) = text {
                                match store.resource(*res) {
                                    None => problems.push(("target.resource".into(), format!("annotation {} AnnotationSelector text on missing resource {:?}", h, res))),
                                    Some(resource) => {
                                        let ts: Result<&TextSelection, _> = resource.as_ref().get(*tsel);
                                        if ts.is_err() {
                                            problems.push(("target.textselection".into(), format!("annotation {} missing textselection {:?}", h, tsel)));
                                        }
                                    }
                                }
                            }
                        }
                        Selector::ResourceSelector(res) => {
                            if store.resource(*res).is_none() {
                                problems.push(("target.resource".into(), format!("annotation {} ResourceSelector on missing resource {:?}", h, res)));
                            }
                        }
                        Selector::DataSetSelector(s) => {
                            if store.dataset(*s).is_none() {
                                problems.push(("target.dataset".into(), format!("annotation {} DataSetSelector on missing set {:?}", h, s)));
                            }
                        }
                        Selector::DataKeySelector(s, k) => {
                            if store.key(*s, *k).is_none() {
                                problems.push(("target.key".into(), format!("annotation {} DataKeySelector on missing key {:?}/{:?}", h, s, k)));
                            }
                        }
                        Selector::AnnotationDataSelector(s, d) => {
                            if store.annotationdata(*s, *d).is_none() {
                                problems.push(("target.data".into(), format!("annotation {} AnnotationDataSelector on missing data {:?}/{:?}", h, s, d)));
                            }
                        }
                        Selector::MultiSelector(v) | Selector::CompositeSelector(v) | Selector::DirectionalSelector(v) => {
                            for s in v.iter() {
                                if s.is_complex() {
                                    problems.push(("target.nested_complex".into(), format!("annotation {} holds a complex selector nested in a complex selector", h)));
                                }
                                stack.push(s);
                            }
                        }
                        Selector::RangedTextSelector { resource, begin, end } => {
                            if begin.as_usize() > end.as_usize() || end.as_usize() - begin.as_usize() > 1_000_000 {
                                problems.push(("target.textselection".into(), format!("annotation {} has an implausible ranged text selector", h)));
                                continue;
                            }
                            match store.resource(*resource) {
                                None => problems.push(("target.resource".into(), format!("annotation {} ranged text on missing resource", h))),
                                Some(res) => {
                                    for i in begin.as_usize()..=end.as_usize() {
                                        let ts: Result<&TextSelection, _> = res.as_ref().get(TextSelectionHandle::new(i));
                                        if ts.is_err() {
                                            problems.push(("target.textselection".into(), format!("annotation {} ranged text missing selection {}", h, i)));
                                        }
                                    }
                                }
                            }
                        }
                        Selector::RangedAnnotationSelector { begin, end, .. } => {
                            if end.as_usize() >= h || begin.as_usize() > end.as_usize() || end.as_usize() - begin.as_usize() > 1_000_000 {
                                problems.push(("target.annotation.forward".into(), format!("annotation {} has an implausible ranged annotation selector {:?}..{:?}", h, begin, end)));
                                continue;
                            }
                            for i in begin.as_usize()..=end.as_usize() {
                                if store.annotation(AnnotationHandle::new(i)).is_none() {
                                    problems.push(("target.annotation".into(), format!("annotation {} ranged annotation selector over missing annotation {}", h, i)));
                                }
                            }
                        }
                    }
                }
            }
            problems
        });
        match r {
            Ok(problems) => {
                let dangling = !problems.is_empty();
                for (key, detail) in problems {
                    self.push("C02", "dangling", &key, detail);
                }
                if dangling {
                    return; // iterating a store with dangling references would only repeat the finding as panics
                }
            }
            Err(p) => {
                self.push("C02", "panic", "walk_forward_refs", crate::exec::normalise_panic(&p));
                return;
            }
        }
        // iterating through the public API must not fail
        let r = catch(|| {
            let mut n = 0usize;
            for ann in store.annotations() {
                n += ann.data().count();
                n += ann.textselections().count();
                n += ann.annotations_in_targets(AnnotationDepth::Max).count();
                n += ann.annotations().count();
            }
            n
        });
        if let Err(p) = r {
            self.push("C02", "panic", "iterate_annotations", crate::exec::normalise_panic(&p));
        }
        // serialising to a JSON string writes the stand-off file of every changed item that has a
        // filename (whatever the given config says) - on a store that is kept as CSV that would put
        // JSON into .csv files, which is the harness's doing, not the library's: not done there
        let kept_as_csv = store.config().dataformat() == stam::DataFormat::Csv;
        if serialise && !kept_as_csv {
            let r = catch(|| {
                let cfg = Config::new().with_use_include(false);
                store.to_json_string(&cfg)
            });
            match r {
                Ok(Ok(_)) => {}
                Ok(Err(e)) => self.push("C02", "outcome", "to_json_string", format!("serialisation failed: {}", e)),
                Err(p) => self.push("C02", "panic", "to_json_string", crate::exec::normalise_panic(&p)),
            }
        }
    }

    // ------------------------------------------------------------------ C03: identifiers

    pub fn check_ids(&mut self, extra_pool: &[String]) {
        let store = self.store;
        let m = self.model;
        // every id ever seen in the model, per kind, plus the adversarial pool
        let mut pool: BTreeSet<String> = extra_pool.iter().cloned().collect();
        for r in &m.resources {
            pool.insert(r.id.clone());
        }
        for s in &m.datasets {
            pool.insert(s.id.clone());
            for k in &s.keys {
                pool.insert(k.id.clone());
            }
            for d in &s.data {
                if let Some(id) = &d.id {
                    pool.insert(id.clone());
                }
            }
        }
        for a in &m.annotations {
            if let Some(id) = &a.id {
                pool.insert(id.clone());
            }
        }
        // temp ids for every letter over handles live / removed / beyond the end
        let max_slots = m.ann_slots.max(m.res_slots).max(m.set_slots) + 1;
        for letter in ['A', 'R', 'S', 'D', 'K', 'T', 'X', 'É'] {
            for n in 0..=max_slots.min(6) {
                pool.insert(format!("!{}{}", letter, n));
            }
            // numbers around the widths of the handle types (u16 for sets and keys, u32 for the others) and of usize
            for n in ["65535", "65536", "70000", "4294967295", "4294967296", "18446744073709551615", "18446744073709551616"] {
                pool.insert(format!("!{}{}", letter, n));
            }
        }
        for id in pool.iter() {
            if self.full() {
                return;
            }
            let tempid = parse_temp_id(id);
            // annotations
            let exp: Option<usize> = match &tempid {
                Some((letter, n)) => {
                    if *letter == 'A' {
                        m.annotations.iter().find(|a| a.live && a.handle == *n).map(|a| a.handle)
                    } else {
                        None
                    }
                }
                None => m.find_annotation_by_id(id).map(|u| m.annotations[u].handle),
            };
            if let Some(got) = self.guarded("C03", "store.annotation(id)", id, || {
                store.annotation(id.as_str()).map(|a| a.handle().as_usize())
            }) {
                if got != exp {
                    self.push("C03", "mismatch", "store.annotation(id)", format!("id {:?}: expected {:?} got {:?}", id, exp, got));
                }
            }
            let exp: Option<usize> = match &tempid {
                Some((letter, n)) => {
                    if *letter == 'R' {
                        m.resources.iter().find(|a| a.live && a.handle == *n).map(|a| a.handle)
                    } else {
                        None
                    }
                }
                None => m.find_resource_by_id(id).map(|u| m.resources[u].handle),
            };
            if let Some(got) = self.guarded("C03", "store.resource(id)", id, || {
                store.resource(id.as_str()).map(|a| a.handle().as_usize())
            }) {
                if got != exp {
                    self.push("C03", "mismatch", "store.resource(id)", format!("id {:?}: expected {:?} got {:?}", id, exp, got));
                }
            }
            let exp: Option<usize> = match &tempid {
                Some((letter, n)) => {
                    if *letter == 'S' {
                        m.datasets.iter().find(|a| a.live && a.handle == *n).map(|a| a.handle)
                    } else {
                        None
                    }
                }
                None => m.find_dataset_by_id(id).map(|u| m.datasets[u].handle),
            };
            if let Some(got) = self.guarded("C03", "store.dataset(id)", id, || {
                store.dataset(id.as_str()).map(|a| a.handle().as_usize())
            }) {
                if got != exp {
                    self.push("C03", "mismatch", "store.dataset(id)", format!("id {:?}: expected {:?} got {:?}", id, exp, got));
                }
            }
            if let Some(got) = self.guarded("C03", "store.substore(id)", id, || {
                store.substore(id.as_str()).map(|a| a.handle().as_usize())
            }) {
                if got.is_some() {
                    self.push("C03", "extra", "store.substore(id)", format!("id {:?} resolved to a substore although none exists", id));
                }
            }
            // resolve_*_id must agree with the lookups: the handle of the live item that carries the id, or an
            // error (an id that still "resolves" to the slot of a removed item is a stale id-map entry)
            if let Some(got) = self.guarded("C03", "store.resolve_annotation_id", id, || {
                store.resolve_annotation_id(id.as_str()).ok().map(|h| h.as_usize())
            }) {
                let exp = match &tempid {
                    Some((l, n)) if *l == 'A' => m.annotations.iter().find(|a| a.live && a.handle == *n).map(|a| a.handle),
                    Some(_) => None,
                    None => m.find_annotation_by_id(id).map(|u| m.annotations[u].handle),
                };
                if got != exp {
                    self.push("C03", "mismatch", "store.resolve_annotation_id", format!("id {:?}: expected {:?} got {:?}", id, exp, got));
                }
            }
            if let Some(got) = self.guarded("C03", "store.resolve_resource_id", id, || {
                store.resolve_resource_id(id.as_str()).ok().map(|h| h.as_usize())
            }) {
                let exp = match &tempid {
                    Some((l, n)) if *l == 'R' => m.resources.iter().find(|a| a.live && a.handle == *n).map(|a| a.handle),
                    Some(_) => None,
                    None => m.find_resource_by_id(id).map(|u| m.resources[u].handle),
                };
                if got != exp {
                    self.push("C03", "mismatch", "store.resolve_resource_id", format!("id {:?}: expected {:?} got {:?}", id, exp, got));
                }
            }
            if let Some(got) = self.guarded("C03", "store.resolve_dataset_id", id, || {
                store.resolve_dataset_id(id.as_str()).ok().map(|h| h.as_usize())
            }) {
                let exp = match &tempid {
                    Some((l, n)) if *l == 'S' => m.datasets.iter().find(|a| a.live && a.handle == *n).map(|a| a.handle),
                    Some(_) => None,
                    None => m.find_dataset_by_id(id).map(|u| m.datasets[u].handle),
                };
                if got != exp {
                    self.push("C03", "mismatch", "store.resolve_dataset_id", format!("id {:?}: expected {:?} got {:?}", id, exp, got));
                }
            }
            // keys and data per live dataset
            for set in m.datasets.iter().filter(|s| s.live) {
                if self.full() {
                    return;
                }
                let exp: Option<usize> = match &tempid {
                    Some((letter, n)) => {
                        if *letter == 'K' {
                            set.keys.iter().find(|k| k.live && k.handle == *n).map(|k| k.handle)
                        } else {
                            None
                        }
                    }
                    None => set.keys.iter().find(|k| k.live && &k.id == id).map(|k| k.handle),
                };
                let sethandle = sh(set.handle);
                if let Some(got) = self.guarded("C03", "store.key(set,id)", id, || {
                    store.key(sethandle, id.as_str()).map(|k| k.handle().as_usize())
                }) {
                    if got != exp {
                        self.push("C03", "mismatch", "store.key(set,id)", format!("set {:?} id {:?}: expected {:?} got {:?}", set.id, id, exp, got));
                    }
                }
                let exp: Option<usize> = match &tempid {
                    Some((letter, n)) => {
                        if *letter == 'D' {
                            set.data.iter().find(|k| k.live && k.handle == *n).map(|k| k.handle)
                        } else {
                            None
                        }
                    }
                    None => set
                        .data
                        .iter()
                        .find(|k| k.live && k.id.as_deref() == Some(id.as_str()))
                        .map(|k| k.handle),
                };
                if let Some(got) = self.guarded("C03", "store.annotationdata(set,id)", id, || {
                    store.annotationdata(sethandle, id.as_str()).map(|k| k.handle().as_usize())
                }) {
                    if got != exp {
                        self.push("C03", "mismatch", "store.annotationdata(set,id)", format!("set {:?} id {:?}: expected {:?} got {:?}", set.id, id, exp, got));
                    }
                }
            }
        }
        // items report the id they carry
        for a in m.annotations.iter().filter(|a| a.live) {
            if let Some(item) = store.annotation(ah(a.handle)) {
                if item.id().map(|s| s.to_string()) != a.id {
                    self.push("C03", "mismatch", "annotation.id", format!("annotation {}: expected {:?} got {:?}", a.handle, a.id, item.id()));
                }
            }
        }
    }

    // ------------------------------------------------------------------ C01: forward + reverse

    pub fn check_forward(&mut self) {
        let store = self.store;
        let m = self.model;
        for (uid, a) in m.annotations.iter().enumerate().filter(|(_, a)| a.live) {
            if self.full() {
                return;
            }
            let ctx = format!("annotation {}", a.handle);
            let Some(item) = store.annotation(ah(a.handle)) else {
                continue; // reported by check_live_sets
            };
            // target kind
            let kind = item.as_ref().target().kind();
            if kind.as_str() != a.target.kind() {
                self.push("C01", "mismatch", "annotation.target.kind", format!("{}: expected {} got {}", ctx, a.target.kind(), kind.as_str()));
            }
            // text selections
            let exp: Vec<(usize, usize, usize)> = m
                .ann_text_targets(uid)
                .iter()
                .map(|t| (m.resources[t.res].handle, t.b, t.e))
                .collect();
            if let Some(got) = self.guarded("C01", "annotation.textselections", &ctx, || {
                item.textselections()
                    .map(|t| (t.resource().handle().as_usize(), t.begin(), t.end()))
                    .collect::<Vec<_>>()
            }) {
                self.cmp_seq("C01", "annotation.textselections", &ctx, &exp, &got);
            }
            // data
            let exp: Vec<(usize, usize)> = a
                .data
                .iter()
                .map(|(s, d)| (m.datasets[*s].handle, m.datasets[*s].data[*d].handle))
                .collect();
            if let Some(got) = self.guarded("C01", "annotation.data", &ctx, || {
                item.data()
                    .map(|d| (d.set().handle().as_usize(), d.handle().as_usize()))
                    .collect::<Vec<_>>()
            }) {
                self.cmp_seq("C01", "annotation.data", &ctx, &exp, &got);
            }
            // annotations in targets (one level)
            let exp: Vec<usize> = self.ann_handles(&m.ann_direct_annotation_targets(uid));
            if let Some(got) = self.guarded("C01", "annotation.annotations_in_targets", &ctx, || {
                item.annotations_in_targets(AnnotationDepth::One)
                    .map(|x| x.handle().as_usize())
                    .collect::<Vec<_>>()
            }) {
                match a.target {
                    MSel::Multi(_) | MSel::Composite(_) => {
                        self.cmp_multiset("C01", "annotation.annotations_in_targets", &ctx, &exp, &got)
                    }
                    _ => self.cmp_seq("C01", "annotation.annotations_in_targets", &ctx, &exp, &got),
                }
            }
            // metadata targets
            let mut exp_res: Vec<usize> = Vec::new();
            let mut exp_sets: Vec<usize> = Vec::new();
            let mut exp_keys: Vec<(usize, usize)> = Vec::new();
            let mut exp_data: Vec<(usize, usize)> = Vec::new();
            for leaf in a.target.leaves() {
                match leaf {
                    MSel::Res(r) => exp_res.push(m.resources[*r].handle),
                    MSel::Set(s) => exp_sets.push(m.datasets[*s].handle),
                    MSel::Key(s, k) => exp_keys.push((m.datasets[*s].handle, m.datasets[*s].keys[*k].handle)),
                    MSel::Data(s, d) => exp_data.push((m.datasets[*s].handle, m.datasets[*s].data[*d].handle)),
                    _ => {}
                }
            }
            if let Some(got) = self.guarded("C01", "annotation.datasets", &ctx, || {
                item.datasets().map(|x| x.handle().as_usize()).collect::<Vec<_>>()
            }) {
                self.cmp_multiset("C01", "annotation.datasets", &ctx, &exp_sets, &got);
            }
            // note: resources_as_metadata/keys_as_metadata/data_as_metadata recurse through
            // annotation selectors, so the direct targets are only required to be a subset
            if let Some(got) = self.guarded("C01", "annotation.resources_as_metadata", &ctx, || {
                item.resources_as_metadata().map(|x| x.handle().as_usize()).collect::<Vec<_>>()
            }) {
                let exp = self.meta_closure_resources(uid);
                self.cmp_multiset("C01", "annotation.resources_as_metadata", &ctx, &exp, &got);
                let _ = exp_res;
            }
            if let Some(got) = self.guarded("C01", "annotation.keys_as_metadata", &ctx, || {
                item.keys_as_metadata()
                    .map(|x| (x.set().handle().as_usize(), x.handle().as_usize()))
                    .collect::<Vec<_>>()
            }) {
                let exp = self.meta_closure_keys(uid);
                self.cmp_multiset("C01", "annotation.keys_as_metadata", &ctx, &exp, &got);
                let _ = exp_keys;
            }
            if let Some(got) = self.guarded("C01", "annotation.data_as_metadata", &ctx, || {
                item.data_as_metadata()
                    .map(|x| (x.set().handle().as_usize(), x.handle().as_usize()))
                    .collect::<Vec<_>>()
            }) {
                let exp = self.meta_closure_data(uid);
                self.cmp_multiset("C01", "annotation.data_as_metadata", &ctx, &exp, &got);
                let _ = exp_data;
            }
            // reverse: annotations that target this annotation
            let exp: Vec<usize> = self.ann_handles(&m.annotations_on_annotation(uid));
            if let Some(got) = self.guarded("C01", "annotation.annotations", &ctx, || {
                item.annotations().map(|x| x.handle().as_usize()).collect::<Vec<_>>()
            }) {
                self.cmp_seq("C01", "annotation.annotations", &ctx, &exp, &got);
            }
            if let Some(got) = self.guarded("C01", "annotation.annotations_handles", &ctx, || {
                item.annotations_handles().iter().map(|x| x.as_usize()).collect::<Vec<_>>()
            }) {
                // the handles collection may hold stale handles that the item iterator masks
                for h in got.iter() {
                    if store.annotation(ah(*h)).is_none() {
                        self.push("C01", "extra", "annotation.annotations_handles", format!("{}: stale handle {}", ctx, h));
                    }
                }
                self.cmp_seq("C01", "annotation.annotations_handles", &ctx, &exp, &got);
            }
        }
    }

    /// transitive (through annotation selectors) sets, as the *_as_metadata methods document
    fn walk_closure(&self, uid: Uid, visit: &mut dyn FnMut(&MSel)) {
        let mut seen: BTreeSet<Uid> = BTreeSet::new();
        let mut stack = vec![uid];
        while let Some(u) = stack.pop() {
            if !seen.insert(u) {
                continue;
            }
            for leaf in self.model.annotations[u].target.leaves() {
                visit(leaf);
                if let MSel::Ann { a, .. } = leaf {
                    stack.push(*a);
                }
            }
        }
    }
    fn meta_closure_resources(&self, uid: Uid) -> Vec<usize> {
        let mut v = BTreeSet::new();
        let m = self.model;
        self.walk_closure(uid, &mut |l| {
            if let MSel::Res(r) = l {
                v.insert(m.resources[*r].handle);
            }
        });
        v.into_iter().collect()
    }
    fn meta_closure_keys(&self, uid: Uid) -> Vec<(usize, usize)> {
        let mut v = BTreeSet::new();
        let m = self.model;
        self.walk_closure(uid, &mut |l| {
            if let MSel::Key(s, k) = l {
                v.insert((m.datasets[*s].handle, m.datasets[*s].keys[*k].handle));
            }
        });
        v.into_iter().collect()
    }
    fn meta_closure_data(&self, uid: Uid) -> Vec<(usize, usize)> {
        let mut v = BTreeSet::new();
        let m = self.model;
        self.walk_closure(uid, &mut |l| {
            if let MSel::Data(s, d) = l {
                v.insert((m.datasets[*s].handle, m.datasets[*s].data[*d].handle));
            }
        });
        v.into_iter().collect()
    }

    pub fn check_reverse(&mut self) {
        let store = self.store;
        let m = self.model;
        for (ru, r) in m.resources.iter().enumerate().filter(|(_, r)| r.live) {
            if self.full() {
                return;
            }
            let ctx = format!("resource {}", r.id);
            let Some(res) = store.resource(rh(r.handle)) else {
                continue;
            };
            let exp = self.ann_handles(&m.annotations_on_resource_text(ru));
            if let Some(got) = self.guarded("C01", "resource.annotations", &ctx, || {
                res.annotations().map(|x| x.handle().as_usize()).collect::<Vec<_>>()
            }) {
                self.cmp_seq("C01", "resource.annotations", &ctx, &exp, &got);
            }
            let exp = self.ann_handles(&m.annotations_on_resource_meta(ru));
            if let Some(got) = self.guarded("C01", "resource.annotations_as_metadata", &ctx, || {
                res.annotations_as_metadata().map(|x| x.handle().as_usize()).collect::<Vec<_>>()
            }) {
                self.cmp_seq("C01", "resource.annotations_as_metadata", &ctx, &exp, &got);
            }
            // known text selections, forwards
            let exp_sels = m.known_selections_sorted(ru);
            if let Some(got) = self.guarded("C01", "resource.textselections", &ctx, || {
                res.textselections().map(|t| (t.begin(), t.end())).collect::<Vec<_>>()
            }) {
                // textual order: by begin; ties in any order
                let mut g = got.clone();
                let sorted_by_begin = got.windows(2).all(|w| w[0].0 <= w[1].0);
                g.sort();
                if let Some((class, d)) = diff_class(&exp_sels, &g) {
                    self.push("C06", class, "resource.textselections", format!("{}: {}", ctx, d));
                } else if !sorted_by_begin {
                    self.push("C06", "order", "resource.textselections", format!("{}: {:?}", ctx, got));
                }
            }
            if let Some(got) = self.guarded("C01", "resource.textselections.rev", &ctx, || {
                res.textselections().rev().map(|t| (t.begin(), t.end())).collect::<Vec<_>>()
            }) {
                let mut g = got.clone();
                let sorted_by_end_desc = got.windows(2).all(|w| w[0].1 >= w[1].1);
                g.sort();
                if let Some((class, d)) = diff_class(&exp_sels, &g) {
                    self.push("C06", class, "resource.textselections.rev", format!("{}: {}", ctx, d));
                } else if !sorted_by_end_desc {
                    self.push("C06", "order", "resource.textselections.rev", format!("{}: {:?}", ctx, got));
                }
            }
            // per selection
            if let Some(sels) = self.guarded("C01", "resource.textselections_unsorted", &ctx, || {
                res.as_ref()
                    .textselections_unsorted()
                    .map(|t| (t.handle().map(|h| h.as_usize()), t.begin(), t.end()))
                    .collect::<Vec<_>>()
            }) {
                let mut g: Vec<(usize, usize)> = sels.iter().map(|(_, b, e)| (*b, *e)).collect();
                g.sort();
                if let Some((class, d)) = diff_class(&exp_sels, &g) {
                    self.push("C14", class, "resource.textselections_unsorted", format!("{}: {}", ctx, d));
                }
                for (h, b, e) in sels {
                    if self.full() {
                        return;
                    }
                    let Some(h) = h else {
                        self.push("C01", "mismatch", "textselection.handle", format!("{}: unbound selection {}..{} in store", ctx, b, e));
                        continue;
                    };
                    let ctx2 = format!("{} selection {}..{}", ctx, b, e);
                    let exp = self.ann_handles(&m.annotations_on_selection(ru, b, e));
                    if let Some((got, len)) = self.guarded("C01", "textselection.annotations", &ctx2, || {
                        let ts = res.textselection_by_handle(TextSelectionHandle::new(h)).expect("handle from the store itself");
                        (
                            ts.annotations().map(|x| x.handle().as_usize()).collect::<Vec<_>>(),
                            ts.annotations_len(),
                        )
                    }) {
                        self.cmp_seq("C01", "textselection.annotations", &ctx2, &exp, &got);
                        if len != got.len() {
                            self.push("C01", "mismatch", "textselection.annotations_len", format!("{}: len {} but iterator yields {}", ctx2, len, got.len()));
                        }
                    }
                }
            }
        }
        for (su, set) in m.datasets.iter().enumerate().filter(|(_, s)| s.live) {
            if self.full() {
                return;
            }
            let ctx = format!("dataset {}", set.id);
            let Some(ds) = store.dataset(sh(set.handle)) else {
                continue;
            };
            let exp = self.ann_handles(&m.annotations_on_dataset_meta(su));
            if let Some(got) = self.guarded("C01", "dataset.annotations", &ctx, || {
                ds.annotations().map(|x| x.handle().as_usize()).collect::<Vec<_>>()
            }) {
                self.cmp_seq("C01", "dataset.annotations", &ctx, &exp, &got);
            }
            for (ki, k) in set.keys.iter().enumerate().filter(|(_, k)| k.live) {
                if self.full() {
                    return;
                }
                let ctx2 = format!("{} key {}", ctx, k.id);
                let Some(key) = ds.key(kh(k.handle)) else {
                    continue;
                };
                let exp: Vec<usize> = set
                    .data
                    .iter()
                    .filter(|d| d.live && d.key == ki)
                    .map(|d| d.handle)
                    .collect();
                if let Some(got) = self.guarded("C10", "key.data", &ctx2, || {
                    key.data().map(|d| d.handle().as_usize()).collect::<Vec<_>>()
                }) {
                    self.cmp_seq("C10", "key.data", &ctx2, &exp, &got);
                }
                let exp = self.ann_handles(&m.annotations_with_key(su, ki));
                if let Some((got, count)) = self.guarded("C01", "key.annotations", &ctx2, || {
                    (
                        key.annotations().map(|x| x.handle().as_usize()).collect::<Vec<_>>(),
                        key.annotations_count(),
                    )
                }) {
                    self.cmp_seq("C01", "key.annotations", &ctx2, &exp, &got);
                    if count != exp.len() {
                        self.push("C01", "mismatch", "key.annotations_count", format!("{}: expected {} got {}", ctx2, exp.len(), count));
                    }
                }
                let exp = self.ann_handles(&m.annotations_on_key_meta(su, ki));
                if let Some(got) = self.guarded("C01", "key.annotations_as_metadata", &ctx2, || {
                    key.annotations_as_metadata().map(|x| x.handle().as_usize()).collect::<Vec<_>>()
                }) {
                    self.cmp_seq("C01", "key.annotations_as_metadata", &ctx2, &exp, &got);
                }
            }
            for (di, d) in set.data.iter().enumerate().filter(|(_, d)| d.live) {
                if self.full() {
                    return;
                }
                let ctx2 = format!("{} data {}", ctx, d.handle);
                let Some(data) = ds.annotationdata(dh(d.handle)) else {
                    continue;
                };
                let exp = self.ann_handles(&m.annotations_with_data(su, di));
                if let Some((got, len)) = self.guarded("C01", "data.annotations", &ctx2, || {
                    (
                        data.annotations().map(|x| x.handle().as_usize()).collect::<Vec<_>>(),
                        data.annotations_len(),
                    )
                }) {
                    self.cmp_seq("C01", "data.annotations", &ctx2, &exp, &got);
                    if len != exp.len() {
                        self.push("C01", "mismatch", "data.annotations_len", format!("{}: expected {} got {}", ctx2, exp.len(), len));
                    }
                }
                let exp = self.ann_handles(&m.annotations_on_data_meta(su, di));
                if let Some(got) = self.guarded("C01", "data.annotations_as_metadata", &ctx2, || {
                    data.annotations_as_metadata().map(|x| x.handle().as_usize()).collect::<Vec<_>>()
                }) {
                    self.cmp_seq("C01", "data.annotations_as_metadata", &ctx2, &exp, &got);
                }
            }
        }
    }

    // ------------------------------------------------------------------ C04: text and offsets

    pub fn check_text_offsets(&mut self) {
        let store = self.store;
        let m = self.model;
        for (uid, a) in m.annotations.iter().enumerate().filter(|(_, a)| a.live) {
            if self.full() {
                return;
            }
            let ctx = format!("annotation {}", a.handle);
            let Some(item) = store.annotation(ah(a.handle)) else {
                continue;
            };
            let targets = m.ann_text_targets(uid);
            let exp: Vec<String> = targets.iter().map(|t| m.text_of(t)).collect();
            if let Some(got) = self.guarded("C04", "annotation.text", &ctx, || {
                item.text().map(|s| s.to_string()).collect::<Vec<_>>()
            }) {
                if got != exp {
                    self.push("C04", "mismatch", "annotation.text", format!("{}: expected {:?} got {:?}", ctx, exp, got));
                }
            }
            if let Some(got) = self.guarded("C04", "annotation.text_simple", &ctx, || {
                item.text_simple().map(|s| s.to_string())
            }) {
                let exp_simple = if exp.len() == 1 { Some(exp[0].clone()) } else { None };
                if got != exp_simple {
                    self.push("C04", "mismatch", "annotation.text_simple", format!("{}: expected {:?} got {:?}", ctx, exp_simple, got));
                }
            }
            // reported offsets for simple selectors carrying an offset
            let (tt, base): (TextT, Option<TextT>) = match &a.target {
                MSel::Text(t) => (*t, None),
                MSel::Ann { a: parent, text: Some(t) } => (*t, m.single_text(*parent)),
                _ => continue,
            };
            let (base_b, base_len) = match (&a.target, base) {
                (MSel::Text(_), _) => (0usize, m.resources[tt.res].text.len()),
                (_, Some(p)) => (p.b, p.e - p.b),
                _ => continue,
            };
            let rel_b = tt.b - base_b;
            let rel_e = tt.e - base_b;
            // own mode
            let exp_own = tt.mode.express(rel_b, rel_e, base_len);
            if let Some(got) = self.guarded("C04", "selector.offset", &ctx, || {
                item.as_ref().target().offset(store)
            }) {
                match got {
                    None => self.push("C04", "missing", "selector.offset", format!("{}: no offset reported", ctx)),
                    Some(off) => {
                        let exp_off = Offset::new(exp_own.0.to_cursor(), exp_own.1.to_cursor());
                        if off != exp_off {
                            self.push("C04", "mismatch", "selector.offset", format!("{}: expected {:?} got {:?}", ctx, exp_off, off));
                        }
                        // the textual form of a reported cursor (what CSV files and OFFSET in queries carry) reads
                        // back as the same cursor, alignment included
                        for c in [off.begin, off.end] {
                            let text = format!("{}", c);
                            let text2 = text.clone();
                            if let Some(back) = self.guarded("C04", "cursor.text_form", &ctx, move || Cursor::try_from(text2.as_str()).ok()) {
                                if back != Some(c) {
                                    self.push("C04", "mismatch", "cursor.text_form", format!("{}: cursor {:?} is written as {:?}, which reads back as {:?}", ctx, c, text, back));
                                }
                            }
                        }
                    }
                }
            }
            for mode in Mode::all() {
                let ctx2 = format!("{} mode {:?}", ctx, mode);
                if let Some(got) = self.guarded("C04", "selector.offset_with_mode", &ctx2, || {
                    item.as_ref().target().offset_with_mode(store, Some(mode.to_stam()))
                }) {
                    match got {
                        None => self.push("C04", "missing", "selector.offset_with_mode", format!("{}: no offset reported", ctx2)),
                        Some(off) => {
                            // well-formed: end-aligned cursors never positive
                            for c in [off.begin, off.end] {
                                if let Cursor::EndAligned(x) = c {
                                    if x > 0 {
                                        self.push("C04", "mismatch", "selector.offset_with_mode.sign", format!("{}: positive end-aligned cursor in {:?}", ctx2, off));
                                    }
                                }
                            }
                            // re-resolves to the same absolute range
                            let rb = resolve_cursor(&off.begin, base_len);
                            let re = resolve_cursor(&off.end, base_len);
                            if rb != Some(rel_b) || re != Some(rel_e) {
                                self.push("C04", "mismatch", "selector.offset_with_mode.resolve", format!("{}: {:?} resolves to {:?}..{:?}, expected {}..{}", ctx2, off, rb, re, rel_b, rel_e));
                            }
                            // and the library itself re-resolves it to the same selection
                            if let MSel::Text(_) = a.target {
                                if let Some(res) = store.resource(rh(m.resources[tt.res].handle)) {
                                    if let Some(got2) = self.guarded("C04", "findtext.textselection", &ctx2, || {
                                        res.textselection(&off).map(|t| (t.begin(), t.end())).ok()
                                    }) {
                                        if got2 != Some((tt.b, tt.e)) {
                                            self.push("C04", "mismatch", "findtext.textselection", format!("{}: {:?} re-resolved to {:?}, expected {:?}", ctx2, off, got2, (tt.b, tt.e)));
                                        }
                                    }
                                }
                            }
                        }
                    }
                }
            }
        }
    }

    // ------------------------------------------------------------------ C01: raw index dump

    /// model-free: the raw indices equal the indices recomputed from the store's own live forward references
    pub fn check_dump(&mut self) {
        let store = self.store;
        let Some(dump) = self.guarded("C01", "verif_dump", "", || store.verif_dump()) else {
            return;
        };
        let mut exp_dda: Vec<(usize, usize, usize)> = Vec::new();
        let mut exp_text: Vec<(usize, usize, usize)> = Vec::new();
        let mut exp_resmeta: Vec<(usize, usize)> = Vec::new();
        let mut exp_setmeta: Vec<(usize, usize)> = Vec::new();
        let mut exp_aa: Vec<(usize, usize)> = Vec::new();
        let mut exp_keymeta: Vec<(usize, usize, usize)> = Vec::new();
        let mut exp_datameta: Vec<(usize, usize, usize)> = Vec::new();
        let mut exp_aid: Vec<(String, usize)> = Vec::new();
        let walk = catch(|| {
            let annstore: &Store<Annotation> = <AnnotationStore as StoreFor<Annotation>>::store(store);
            for (slot, ann) in annstore.iter().enumerate() {
                let Some(ann) = ann else { continue };
                let h = ann.handle().map(|h| h.as_usize()).unwrap_or(usize::MAX);
                if h != slot {
                    exp_aid.push((format!("<<annotation in slot {} carries handle {}>>", slot, h), slot));
                }
                if let Some(id) = ann.id() {
                    exp_aid.push((id.to_string(), slot));
                }
                for (s, d) in ann.raw_data() {
                    exp_dda.push((s.as_usize(), d.as_usize(), slot));
                }
                let mut stack: Vec<&Selector> = vec![ann.target()];
                while let Some(sel) = stack.pop() {
                    match sel {
                        Selector::TextSelector(r, t, _) => exp_text.push((r.as_usize(), t.as_usize(), slot)),
                        Selector::AnnotationSelector(a, text) => {
                            exp_aa.push((a.as_usize(), slot));
                            if let Some((r, t, _)) = text {
                                exp_text.push((r.as_usize(), t.as_usize(), slot));
                            }
                        }
                        Selector::ResourceSelector(r) => exp_resmeta.push((r.as_usize(), slot)),
                        Selector::DataSetSelector(s) => exp_setmeta.push((s.as_usize(), slot)),
                        Selector::DataKeySelector(s, k) => exp_keymeta.push((s.as_usize(), k.as_usize(), slot)),
                        Selector::AnnotationDataSelector(s, d) => exp_datameta.push((s.as_usize(), d.as_usize(), slot)),
                        Selector::MultiSelector(v) | Selector::CompositeSelector(v) | Selector::DirectionalSelector(v) => {
                            for s in v {
                                stack.push(s);
                            }
                        }
                        Selector::RangedTextSelector { resource, begin, end } => {
                            for i in begin.as_usize()..=end.as_usize() {
                                exp_text.push((resource.as_usize(), i, slot));
                            }
                        }
                        Selector::RangedAnnotationSelector { begin, end, with_text } => {
                            for i in begin.as_usize()..=end.as_usize() {
                                exp_aa.push((i, slot));
                                if *with_text {
                                    if let Some(Some(t)) = annstore.get(i) {
                                        if let (Some(r), Some(ts)) = (t.target().resource_handle(), t.target().textselection_handle()) {
                                            exp_text.push((r.as_usize(), ts.as_usize(), slot));
                                        }
                                    }
                                }
                            }
                        }
                    }
                }
            }
        });
        if let Err(p) = walk {
            self.push("C01", "panic", "dump.walk", crate::exec::normalise_panic(&p));
            return;
        }
        // a selector may name the same target more than once (two parts of one annotation, the same span
        // twice): the annotation is indexed once under each of its targets
        for v in [&mut exp_resmeta, &mut exp_setmeta, &mut exp_aa] {
            v.sort();
            v.dedup();
        }
        for v in [&mut exp_text, &mut exp_keymeta, &mut exp_datameta] {
            v.sort();
            v.dedup();
        }
        self.cmp_index3("dump.dataset_data_annotation_map", &exp_dda, &dump.dataset_data_annotation_map);
        self.cmp_index3("dump.textrelationmap", &exp_text, &dump.textrelationmap);
        self.cmp_index2("dump.resource_annotation_metamap", &exp_resmeta, &dump.resource_annotation_metamap);
        self.cmp_index2("dump.dataset_annotation_metamap", &exp_setmeta, &dump.dataset_annotation_metamap);
        self.cmp_index2("dump.annotation_annotation_map", &exp_aa, &dump.annotation_annotation_map);
        self.cmp_index3("dump.key_annotation_metamap", &exp_keymeta, &dump.key_annotation_metamap);
        self.cmp_index3("dump.data_annotation_metamap", &exp_datameta, &dump.data_annotation_metamap);
        // index_totalcount agrees with the dump
        if let Some(tc) = self.guarded("C01", "index_totalcount", "", || store.index_totalcount()) {
            let exp = (
                exp_dda.len(),
                exp_text.len(),
                exp_resmeta.len(),
                exp_setmeta.len(),
                exp_aa.len(),
                0usize,
                exp_keymeta.len(),
                exp_datameta.len(),
            );
            if tc != exp {
                self.push("C01", "mismatch", "index_totalcount", format!("expected {:?} got {:?}", exp, tc));
            }
        }
        // id maps
        exp_aid.sort();
        if exp_aid != dump.annotation_idmap {
            let (class, d) = diff_class(&exp_aid, &dump.annotation_idmap).unwrap();
            self.push("C03", class, "dump.annotation_idmap", d);
        }
        let mut exp_rid: Vec<(String, usize)> = Vec::new();
        let resstore: &Store<TextResource> = <AnnotationStore as StoreFor<TextResource>>::store(store);
        for (slot, r) in resstore.iter().enumerate() {
            if let Some(r) = r {
                if let Some(id) = r.id() {
                    exp_rid.push((id.to_string(), slot));
                }
                if r.handle().map(|h| h.as_usize()) != Some(slot) {
                    self.push("C03", "mismatch", "dump.resource.handle", format!("resource in slot {} carries handle {:?}", slot, r.handle()));
                }
            }
        }
        exp_rid.sort();
        if exp_rid != dump.resource_idmap {
            let (class, d) = diff_class(&exp_rid, &dump.resource_idmap).unwrap();
            self.push("C03", class, "dump.resource_idmap", d);
        }
        let mut exp_sid: Vec<(String, usize)> = Vec::new();
        let setstore: &Store<AnnotationDataSet> = <AnnotationStore as StoreFor<AnnotationDataSet>>::store(store);
        for (slot, s) in setstore.iter().enumerate() {
            if let Some(s) = s {
                if let Some(id) = s.id() {
                    exp_sid.push((id.to_string(), slot));
                }
                if s.handle().map(|h| h.as_usize()) != Some(slot) {
                    self.push("C03", "mismatch", "dump.dataset.handle", format!("dataset in slot {} carries handle {:?}", slot, s.handle()));
                }
            }
        }
        exp_sid.sort();
        if exp_sid != dump.dataset_idmap {
            let (class, d) = diff_class(&exp_sid, &dump.dataset_idmap).unwrap();
            self.push("C03", class, "dump.dataset_idmap", d);
        }
        // per dataset
        for (slot, ds) in dump.datasets.iter() {
            if self.full() {
                return;
            }
            let ctx = format!("dataset slot {}", slot);
            let mut exp_kid: Vec<(String, usize)> = ds.keys.iter().map(|(s, _, id)| (id.clone(), *s)).collect();
            exp_kid.sort();
            if exp_kid != ds.key_idmap {
                let (class, d) = diff_class(&exp_kid, &ds.key_idmap).unwrap();
                self.push("C03", class, "dump.key_idmap", format!("{}: {}", ctx, d));
            }
            let mut exp_did: Vec<(String, usize)> = ds
                .data
                .iter()
                .filter_map(|(s, _, id, _)| id.as_ref().map(|id| (id.clone(), *s)))
                .collect();
            exp_did.sort();
            if exp_did != ds.data_idmap {
                let (class, d) = diff_class(&exp_did, &ds.data_idmap).unwrap();
                self.push("C03", class, "dump.data_idmap", format!("{}: {}", ctx, d));
            }
            for (s, h, _) in ds.keys.iter() {
                if *h != Some(*s) {
                    self.push("C03", "mismatch", "dump.key.handle", format!("{}: key in slot {} carries handle {:?}", ctx, s, h));
                }
            }
            for (s, h, _, _) in ds.data.iter() {
                if *h != Some(*s) {
                    self.push("C03", "mismatch", "dump.data.handle", format!("{}: data in slot {} carries handle {:?}", ctx, s, h));
                }
            }
            // key_data_map: (key, data) for every live data item, sorted
            let mut exp_kd: Vec<(usize, usize)> = ds.data.iter().map(|(s, _, _, k)| (*k, *s)).collect();
            exp_kd.sort();
            let got = ds.key_data_map.clone();
            let mut gs = got.clone();
            gs.sort();
            if let Some((class, d)) = diff_class(&exp_kd, &gs) {
                self.push("C10", class, "dump.key_data_map", format!("{}: {}", ctx, d));
            } else if got != gs {
                self.push("C10", "order", "dump.key_data_map", format!("{}: {:?}", ctx, got));
            }
            // data must refer to live keys
            let livekeys: BTreeSet<usize> = ds.keys.iter().map(|(s, _, _)| *s).collect();
            for (s, _, _, k) in ds.data.iter() {
                if !livekeys.contains(k) {
                    self.push("C02", "dangling", "dump.data.key", format!("{}: data {} refers to missing key {}", ctx, s, k));
                }
            }
        }
        // per resource: position index
        for (slot, rd) in dump.resources.iter() {
            if self.full() {
                return;
            }
            let ctx = format!("resource slot {}", slot);
            let Some(res) = store.resource(rh(*slot)) else { continue };
            let text = res.text();
            let charbyte: Vec<usize> = text.char_indices().map(|(b, _)| b).chain(std::iter::once(text.len())).collect();
            let mut exp_b2e: BTreeMap<usize, Vec<(usize, usize)>> = BTreeMap::new();
            let mut exp_e2b: BTreeMap<usize, Vec<(usize, usize)>> = BTreeMap::new();
            for (s, h, b, e) in rd.textselections.iter() {
                if *h != Some(*s) {
                    self.push("C01", "mismatch", "dump.textselection.handle", format!("{}: selection in slot {} carries handle {:?}", ctx, s, h));
                }
                if *b > *e || *e > rd.textlen {
                    self.push("C04", "mismatch", "dump.textselection.range", format!("{}: stored selection {}..{} on text of length {}", ctx, b, e, rd.textlen));
                }
                exp_b2e.entry(*b).or_default().push((*e, *s));
                exp_e2b.entry(*e).or_default().push((*b, *s));
            }
            let mut got_b2e: BTreeMap<usize, Vec<(usize, usize)>> = BTreeMap::new();
            let mut got_e2b: BTreeMap<usize, Vec<(usize, usize)>> = BTreeMap::new();
            for (pos, bytepos, e2b, b2e) in rd.positionindex.iter() {
                if *pos < charbyte.len() {
                    if charbyte[*pos] != *bytepos {
                        self.push("C12", "mismatch", "dump.positionindex.bytepos", format!("{}: position {} has bytepos {} expected {}", ctx, pos, bytepos, charbyte[*pos]));
                    }
                } else {
                    self.push("C12", "extra", "dump.positionindex.position", format!("{}: position {} beyond text length {}", ctx, pos, rd.textlen));
                }
                if !b2e.is_empty() {
                    got_b2e.insert(*pos, b2e.clone());
                }
                if !e2b.is_empty() {
                    got_e2b.insert(*pos, e2b.clone());
                }
            }
            for (name, exp, got) in [("begin2end", &exp_b2e, &got_b2e), ("end2begin", &exp_e2b, &got_e2b)] {
                let flat = |m: &BTreeMap<usize, Vec<(usize, usize)>>| -> Vec<(usize, usize, usize)> {
                    let mut v = Vec::new();
                    for (p, items) in m {
                        for (o, h) in items {
                            v.push((*p, *o, *h));
                        }
                    }
                    v.sort();
                    v
                };
                if let Some((class, d)) = diff_class(&flat(exp), &flat(got)) {
                    self.push("C06", class, &format!("dump.positionindex.{}", name), format!("{}: {}", ctx, d));
                }
            }
            for (b, c) in rd.byte2charmap.iter() {
                if *c >= charbyte.len() || charbyte[*c] != *b {
                    self.push("C12", "mismatch", "dump.byte2charmap", format!("{}: byte {} maps to char {}", ctx, b, c));
                }
            }
        }
    }

    fn cmp_index3(&mut self, key: &str, exp: &[(usize, usize, usize)], got: &[(usize, usize, usize)]) {
        let mut e = exp.to_vec();
        e.sort();
        let mut g = got.to_vec();
        g.sort();
        if let Some((class, d)) = diff_class(&e, &g) {
            self.push("C01", class, key, d);
        } else if got != &g[..] {
            self.push("C01", "order", key, format!("stored order {:?}", got));
        }
    }
    fn cmp_index2(&mut self, key: &str, exp: &[(usize, usize)], got: &[(usize, usize)]) {
        let mut e = exp.to_vec();
        e.sort();
        let mut g = got.to_vec();
        g.sort();
        if let Some((class, d)) = diff_class(&e, &g) {
            self.push("C01", class, key, d);
        } else if got != &g[..] {
            self.push("C01", "order", key, format!("stored order {:?}", got));
        }
    }
}

fn resolve_cursor(c: &Cursor, len: usize) -> Option<usize> {
    match c {
        Cursor::BeginAligned(x) => {
            if *x <= len {
                Some(*x)
            } else {
                None
            }
        }
        Cursor::EndAligned(x) => {
            if *x > 0 {
                return None;
            }
            let d = x.unsigned_abs();
            if d <= len {
                Some(len - d)
            } else {
                None
            }
        }
    }
}

/// `!X<digits>`: the documented temporary-id syntax. Returns (letter, number).
pub fn parse_temp_id(id: &str) -> Option<(char, usize)> {
    let mut chars = id.chars();
    if chars.next() != Some('!') {
        return None;
    }
    let letter = chars.next()?;
    if !letter.is_uppercase() {
        return None;
    }
    let rest: String = chars.collect();
    if rest.is_empty() || !rest.chars().all(|c| c.is_ascii_digit()) {
        return None;
    }
    rest.parse::<usize>().ok().map(|n| (letter, n))
}

// ------------------------------------------------------------------ C06: related text

pub fn related_operators() -> Vec<TextSelectionOperator> {
    let mut v = Vec::new();
    for all in [false, true] {
        for negate in [false, true] {
            if !all {
                // Equals with the 'all' modifier is documented as meaningless ("would be fairly useless") and is not evaluated
                v.push(TextSelectionOperator::Equals { all, negate });
            }
            v.push(TextSelectionOperator::Overlaps { all, negate });
            v.push(TextSelectionOperator::Embeds { all, negate });
            v.push(TextSelectionOperator::SameBegin { all, negate });
            v.push(TextSelectionOperator::SameEnd { all, negate });
            for limit in [None, Some(0), Some(1), Some(3)] {
                v.push(TextSelectionOperator::Embedded { all, negate, limit });
                v.push(TextSelectionOperator::Before { all, negate, limit });
                v.push(TextSelectionOperator::After { all, negate, limit });
            }
            for allow_whitespace in [false, true] {
                v.push(TextSelectionOperator::Precedes { all, negate, allow_whitespace });
                v.push(TextSelectionOperator::Succeeds { all, negate, allow_whitespace });
            }
        }
    }
    v
}

fn op_name(op: &TextSelectionOperator) -> String {
    let mut s = format!("{:?}", op);
    s.retain(|c| !c.is_whitespace());
    s
}

pub fn op_key_pub(op: &TextSelectionOperator) -> String {
    op_key(op)
}

fn op_key(op: &TextSelectionOperator) -> String {
    // stable key without instance data: operator name + which modifiers are set
    let (name, all, negate, extra) = match op {
        TextSelectionOperator::Equals { all, negate } => ("equals", all, negate, String::new()),
        TextSelectionOperator::Overlaps { all, negate } => ("overlaps", all, negate, String::new()),
        TextSelectionOperator::Embeds { all, negate } => ("embeds", all, negate, String::new()),
        TextSelectionOperator::Embedded { all, negate, limit } => ("embedded", all, negate, if limit.is_some() { "+limit".to_string() } else { String::new() }),
        TextSelectionOperator::Before { all, negate, limit } => ("before", all, negate, if limit.is_some() { "+limit".to_string() } else { String::new() }),
        TextSelectionOperator::After { all, negate, limit } => ("after", all, negate, if limit.is_some() { "+limit".to_string() } else { String::new() }),
        TextSelectionOperator::Precedes { all, negate, allow_whitespace } => ("precedes", all, negate, if *allow_whitespace { "+ws".to_string() } else { String::new() }),
        TextSelectionOperator::Succeeds { all, negate, allow_whitespace } => ("succeeds", all, negate, if *allow_whitespace { "+ws".to_string() } else { String::new() }),
        TextSelectionOperator::SameBegin { all, negate } => ("samebegin", all, negate, String::new()),
        TextSelectionOperator::SameEnd { all, negate } => ("sameend", all, negate, String::new()),
        TextSelectionOperator::InSet { all, negate } => ("inset", all, negate, String::new()),
        TextSelectionOperator::SameRange { all, negate } => ("samerange", all, negate, String::new()),
    };
    format!("{}{}{}{}", name, if *all { "+all" } else { "" }, if *negate { "+negate" } else { "" }, extra)
}

impl<'a> Checker<'a> {
    /// related_text from single selections (known and unknown), from annotations and from sets
    /// must equal a brute force over all known selections of the resource using the library's own
    /// relation test; each result once.
    pub fn check_related_text(&mut self, sample_seed: u64) {
        let store = self.store;
        let m = self.model;
        let ops = related_operators();
        let mut rng = crate::rng::Rng::new(sample_seed);
        for (ru, r) in m.resources.iter().enumerate().filter(|(_, r)| r.live) {
            if self.full() {
                return;
            }
            let Some(res) = store.resource(rh(r.handle)) else { continue };
            let len = r.text.len();
            // all known selections, from the store itself
            let known: Vec<(usize, usize, usize)> = match catch(|| {
                res.as_ref()
                    .textselections_unsorted()
                    .map(|t| (t.handle().map(|h| h.as_usize()).unwrap_or(usize::MAX), t.begin(), t.end()))
                    .collect::<Vec<_>>()
            }) {
                Ok(v) => v,
                Err(_) => continue,
            };
            // references: every known selection (sampled when many) + a few unknown ones
            let mut refs: Vec<(usize, usize)> = known.iter().map(|(_, b, e)| (*b, *e)).collect();
            while refs.len() > 6 {
                let i = rng.below(refs.len());
                refs.remove(i);
            }
            for _ in 0..3 {
                let b = rng.below(len + 1);
                let e = b + rng.below(len - b + 1);
                refs.push((b, e));
            }
            refs.push((0, len));
            refs.push((len, len));
            for (b, e) in refs {
                if self.full() {
                    return;
                }
                let offset = Offset::simple(b, e);
                let Ok(Ok(reference)) = catch(|| res.textselection(&offset)) else { continue };
                let ref_handle = reference.handle().map(|h| h.as_usize());
                for op in ops.iter() {
                    let ctx = format!("resource {} ref {}..{}{} op {}", r.id, b, e, if ref_handle.is_some() { "" } else { " (unbound)" }, op_name(op));
                    let key = format!("related_text.selection.{}", op_key(op));
                    let equals_plain = matches!(op, TextSelectionOperator::Equals { all: false, negate: false });
                    let equals_all = matches!(op, TextSelectionOperator::Equals { all: true, negate: false });
                    // brute force with the library's own predicate
                    let expected = catch(|| {
                        let mut v: Vec<(usize, usize)> = Vec::new();
                        for (h, kb, ke) in known.iter() {
                            let is_self = Some(*h) == ref_handle;
                            if is_self && !equals_plain {
                                continue;
                            }
                            let cand = res.textselection(&Offset::simple(*kb, *ke)).expect("known selection");
                            if reference.test(op, &cand) {
                                v.push((*kb, *ke));
                            }
                        }
                        v.sort();
                        v
                    });
                    let Ok(expected) = expected else {
                        continue; // a panic inside the predicate itself is C13's business
                    };
                    let got = self.guarded("C06", &key, &ctx, || {
                        reference.related_text(*op).map(|t| (t.begin(), t.end())).collect::<Vec<_>>()
                    });
                    if let Some(got) = got {
                        let mut g = got.clone();
                        g.sort();
                        let mut e2 = expected.clone();
                        if equals_all {
                            // whether the reference itself is returned is not specified for this variant
                            g.retain(|x| *x != (b, e));
                            e2.retain(|x| *x != (b, e));
                        }
                        if let Some((class, d)) = diff_class(&e2, &g) {
                            self.push("C06", class, &key, format!("{}: {}", ctx, d));
                        }
                    }
                }
            }
            // sets: the text of annotations with all their text in this resource
            for (au, a) in m.annotations.iter().enumerate().filter(|(_, a)| a.live) {
                if self.full() {
                    return;
                }
                let targets = m.ann_text_targets(au);
                if targets.is_empty() || targets.iter().any(|t| t.res != ru) {
                    continue;
                }
                if !rng.chance(1, 3) {
                    continue;
                }
                let Some(item) = store.annotation(ah(a.handle)) else { continue };
                let member: BTreeSet<(usize, usize)> = targets.iter().map(|t| (t.b, t.e)).collect();
                for op in ops.iter() {
                    let ctx = format!("annotation {} on {} op {}", a.handle, r.id, op_name(op));
                    let key = format!("related_text.annotation.{}", op_key(op));
                    let equals_any = matches!(op, TextSelectionOperator::Equals { negate: false, .. });
                    let expected = catch(|| {
                        let set = item.textselectionset().expect("annotation has text in one resource");
                        let mut v: Vec<(usize, usize)> = Vec::new();
                        for (_, kb, ke) in known.iter() {
                            let cand = res.textselection(&Offset::simple(*kb, *ke)).expect("known selection");
                            if set.test(op, &cand) {
                                v.push((*kb, *ke));
                            }
                        }
                        v.sort();
                        v
                    });
                    let Ok(expected) = expected else { continue };
                    let got = self.guarded("C06", &key, &ctx, || item.related_text(*op).map(|t| (t.begin(), t.end())).collect::<Vec<_>>());
                    if let Some(got) = got {
                        let mut g = got.clone();
                        g.sort();
                        let mut e2 = expected.clone();
                        // members of the reference set: returned only by plain equality; for the
                        // other equality variants unspecified
                        if !matches!(op, TextSelectionOperator::Equals { all: false, negate: false }) {
                            if equals_any {
                                g.retain(|x| !member.contains(x));
                            }
                            e2.retain(|x| !member.contains(x));
                        } else {
                            // plain equality returns the reference itself: for a set, its members
                            e2 = member.iter().cloned().collect();
                        }
                        if let Some((class, d)) = diff_class(&e2, &g) {
                            self.push("C06", class, &key, format!("{}: {}", ctx, d));
                        }
                    }
                    // the iterator form: each of the annotation's selections as a reference of its own, the
                    // results merged - every related selection once (equality variants: see above, not evaluated)
                    if member.len() >= 2 && !matches!(op, TextSelectionOperator::Equals { .. }) {
                        let key = format!("related_text.iterator.{}", op_key(op));
                        let expected = catch(|| {
                            let mut v: BTreeSet<(usize, usize)> = BTreeSet::new();
                            for (rb, re) in member.iter() {
                                let reference = res.textselection(&Offset::simple(*rb, *re)).expect("member selection");
                                for (_, kb, ke) in known.iter() {
                                    if (kb, ke) == (rb, re) {
                                        continue;
                                    }
                                    let cand = res.textselection(&Offset::simple(*kb, *ke)).expect("known selection");
                                    if reference.test(op, &cand) {
                                        v.insert((*kb, *ke));
                                    }
                                }
                            }
                            v.into_iter().collect::<Vec<_>>()
                        });
                        let Ok(expected) = expected else { continue };
                        let got = self.guarded("C06", &key, &ctx, || item.textselections().related_text(*op).map(|t| (t.begin(), t.end())).collect::<Vec<_>>());
                        if let Some(got) = got {
                            let mut g = got.clone();
                            g.sort();
                            if let Some((class, d)) = diff_class(&expected, &g) {
                                self.push("C06", class, &key, format!("{}: {}", ctx, d));
                            }
                        }
                    }
                }
            }
        }
    }
}

// ------------------------------------------------------------------ C12: conversions and knob probes

impl<'a> Checker<'a> {
    /// utf8byte / utf8byte_to_charpos are exact inverses that agree with naive counting, and
    /// refuse positions beyond the text and byte offsets inside a character
    pub fn check_conversions(&mut self) {
        let store = self.store;
        let m = self.model;
        for r in m.resources.iter().filter(|r| r.live) {
            if self.full() {
                return;
            }
            let Some(res) = store.resource(rh(r.handle)) else { continue };
            let ctx = format!("resource {}", r.id);
            let text: String = r.text.iter().collect();
            let charbyte: Vec<usize> = text.char_indices().map(|(b, _)| b).chain(std::iter::once(text.len())).collect();
            let len = r.text.len();
            for p in 0..=(len + 2) {
                let got = self.guarded("C12", "resource.utf8byte", &ctx, || res.utf8byte(p).ok());
                let Some(got) = got else { break };
                let exp = if p <= len { Some(charbyte[p]) } else { None };
                if got != exp {
                    self.push("C12", "mismatch", "resource.utf8byte", format!("{}: utf8byte({}) expected {:?} got {:?}", ctx, p, exp, got));
                    break;
                }
            }
            for b in 0..=(text.len() + 2) {
                let got = self.guarded("C12", "resource.utf8byte_to_charpos", &ctx, || res.utf8byte_to_charpos(b).ok());
                let Some(got) = got else { break };
                let exp = charbyte.iter().position(|x| *x == b);
                if got != exp {
                    self.push("C12", "mismatch", "resource.utf8byte_to_charpos", format!("{}: utf8byte_to_charpos({}) expected {:?} got {:?}", ctx, b, exp, got));
                    break;
                }
            }
            // sub-selections: relative positions
            let mut ranges: Vec<(usize, usize)> = r.sels.iter().take(4).cloned().collect();
            if len >= 2 {
                ranges.push((1, len));
                ranges.push((len / 2, len));
                ranges.push((1, len - 1));
            }
            for (sb, se) in ranges {
                if self.full() {
                    return;
                }
                let ctx2 = format!("{} selection {}..{}", ctx, sb, se);
                let Ok(Ok(sel)) = catch(|| res.textselection(&Offset::simple(sb, se))) else { continue };
                let seltext: String = r.text[sb..se].iter().collect();
                let rel: Vec<usize> = seltext.char_indices().map(|(b, _)| b).chain(std::iter::once(seltext.len())).collect();
                if let Some(t) = self.guarded("C12", "selection.text", &ctx2, || sel.text().to_string()) {
                    if t != seltext {
                        self.push("C12", "mismatch", "selection.text", format!("{}: expected {:?} got {:?}", ctx2, seltext, t));
                    }
                }
                for p in 0..=(se - sb) {
                    let got = self.guarded("C12", "selection.utf8byte", &ctx2, || sel.utf8byte(p).ok());
                    let Some(got) = got else { break };
                    if got != Some(rel[p]) {
                        self.push("C12", "mismatch", "selection.utf8byte", format!("{}: utf8byte({}) expected {:?} got {:?}", ctx2, p, Some(rel[p]), got));
                        break;
                    }
                }
                for b in 0..=seltext.len() {
                    let got = self.guarded("C12", "selection.utf8byte_to_charpos", &ctx2, || sel.utf8byte_to_charpos(b).ok());
                    let Some(got) = got else { break };
                    let exp = rel.iter().position(|x| *x == b);
                    if got != exp {
                        self.push("C12", "mismatch", "selection.utf8byte_to_charpos", format!("{}: utf8byte_to_charpos({}) expected {:?} got {:?}", ctx2, b, exp, got));
                        break;
                    }
                }
                // text by offset inside the selection
                for (ob, oe) in [(0usize, se - sb), (0, 0), ((se - sb) / 2, se - sb)] {
                    let off = Offset::simple(ob, oe);
                    let got = self.guarded("C12", "selection.text_by_offset", &ctx2, || sel.text_by_offset(&off).ok().map(|s| s.to_string()));
                    let Some(got) = got else { break };
                    let exp: String = r.text[sb + ob..sb + oe].iter().collect();
                    if got.as_deref() != Some(exp.as_str()) {
                        self.push("C12", "mismatch", "selection.text_by_offset", format!("{}: offset {}..{} expected {:?} got {:?}", ctx2, ob, oe, exp, got));
                        break;
                    }
                }
            }
        }
    }
}

/// Answers of calls whose absolute correctness is another property's business (C07 text search,
/// segmentation) or that walk knob-dependent structures: recorded per step and compared *across
/// replicas* that differ only in performance knobs.
pub fn probe_answers(store: &AnnotationStore, m: &Model) -> Vec<(String, String)> {
    let mut out: Vec<(String, String)> = Vec::new();
    let mut add = |k: String, v: Result<String, String>| {
        out.push((
            k,
            match v {
                Ok(s) => s,
                Err(p) => format!("PANIC {}", crate::exec::normalise_panic(&p)),
            },
        ))
    };
    for r in m.resources.iter().filter(|r| r.live) {
        let Some(res) = store.resource(rh(r.handle)) else { continue };
        let id = r.id.clone();
        let needles: Vec<String> = {
            let mut v: Vec<String> = Vec::new();
            if let Some(c) = r.text.first() {
                v.push(c.to_string());
            }
            if r.text.len() >= 2 {
                v.push(r.text[r.text.len() / 2..(r.text.len() / 2 + 2).min(r.text.len())].iter().collect());
            }
            v.push(" ".to_string());
            v
        };
        for n in needles.iter() {
            add(format!("find_text:{}:{:?}", id, n), catch(|| res.find_text(n).map(|t| format!("{}-{};", t.begin(), t.end())).collect::<String>()));
            add(format!("find_text_nocase:{}:{:?}", id, n), catch(|| res.find_text_nocase(&n.to_lowercase()).map(|t| format!("{}-{};", t.begin(), t.end())).collect::<String>()));
            add(format!("split_text:{}:{:?}", id, n), catch(|| res.split_text(n).map(|t| format!("{}-{};", t.begin(), t.end())).collect::<String>()));
        }
        add(format!("trim_text:{}", id), catch(|| res.trim_text(&[' ', '\n', '\t']).map(|t| format!("{}-{}", t.begin(), t.end())).unwrap_or_else(|e| format!("ERR {}", e))));
        add(
            format!("regex:{}", id),
            catch(|| {
                let re = [Regex::new(r"\w+").unwrap()];
                let out = match res.find_text_regex(&re, None, true) {
                    Ok(iter) => iter.map(|m| m.textselections().iter().map(|t| format!("{}-{};", t.begin(), t.end())).collect::<String>()).collect::<String>(),
                    Err(e) => format!("ERR {}", e),
                };
                out
            }),
        );
        add(format!("segmentation:{}", id), catch(|| res.segmentation().map(|t| format!("{}-{};", t.begin(), t.end())).collect::<String>()));
        add(format!("textselections:{}", id), catch(|| res.textselections().map(|t| format!("{}-{};", t.begin(), t.end())).collect::<String>()));
        for (sb, se) in r.sels.iter().take(3) {
            let off = Offset::simple(*sb, *se);
            add(
                format!("sel.find_text:{}:{}..{}", id, sb, se),
                catch(|| match res.textselection(&off) {
                    Ok(sel) => {
                        let mut n: String = r.text[*sb..(*sb + 1).min(*se)].iter().collect();
                        if n.is_empty() {
                            n = "x".to_string(); // searching for the empty string is not a defined request
                        }
                        format!(
                            "{}|{}|{}",
                            sel.find_text(&n).map(|t| format!("{}-{};", t.begin(), t.end())).collect::<String>(),
                            sel.split_text(" ").map(|t| format!("{}-{};", t.begin(), t.end())).collect::<String>(),
                            sel.related_text(TextSelectionOperator::overlaps()).map(|t| format!("{}-{};", t.begin(), t.end())).collect::<String>()
                        )
                    }
                    Err(e) => format!("ERR {}", e),
                }),
            );
        }
    }
    out
}

// ------------------------------------------------------------------ C10: data search equals a scan

fn data_operators() -> Vec<DataOperator<'static>> {
    use std::borrow::Cow;
    let dt = |s: &str| DateTime::parse_from_rfc3339(s).expect("valid datetime");
    vec![
        DataOperator::Any,
        DataOperator::Null,
        DataOperator::True,
        DataOperator::False,
        DataOperator::Equals(Cow::Borrowed("5")),
        DataOperator::Equals(Cow::Borrowed("true")),
        DataOperator::Equals(Cow::Borrowed("yes")),
        DataOperator::Equals(Cow::Borrowed("x")),
        DataOperator::Equals(Cow::Borrowed("")),
        DataOperator::Equals(Cow::Borrowed("noun")),
        DataOperator::Equals(Cow::Borrowed("5.0")),
        DataOperator::Equals(Cow::Borrowed("0.5")),
        DataOperator::Equals(Cow::Borrowed("2022-01-01T12:00:00+00:00")),
        DataOperator::EqualsInt(5),
        DataOperator::EqualsInt(0),
        DataOperator::EqualsFloat(5.0),
        DataOperator::EqualsFloat(0.5),
        DataOperator::GreaterThan(4),
        DataOperator::GreaterThanOrEqual(5),
        DataOperator::LessThan(5),
        DataOperator::LessThanOrEqual(5),
        DataOperator::GreaterThanFloat(0.4),
        DataOperator::LessThanOrEqualFloat(5.0),
        DataOperator::ExactDatetime(dt("2022-01-01T12:00:00+00:00")),
        DataOperator::AfterDatetime(dt("2000-01-01T00:00:00+00:00")),
        DataOperator::AtOrBeforeDatetime(dt("2022-01-01T13:00:00+01:00")),
        DataOperator::HasElement(Cow::Borrowed("true")),
        DataOperator::HasElementInt(5),
        DataOperator::HasElementFloat(0.5),
        DataOperator::Not(Box::new(DataOperator::Equals(Cow::Borrowed("5")))),
        DataOperator::Not(Box::new(DataOperator::Null)),
        DataOperator::Or(vec![DataOperator::EqualsInt(5), DataOperator::Equals(Cow::Borrowed("x"))]),
        DataOperator::Or(vec![DataOperator::Equals(Cow::Borrowed("5")), DataOperator::True]),
        DataOperator::And(vec![DataOperator::GreaterThan(0), DataOperator::LessThan(10)]),
        // cross-type comparison with a string operand, for scalars and for list elements alike
        DataOperator::HasElement(Cow::Borrowed("5")),
        DataOperator::HasElement(Cow::Borrowed("x")),
        DataOperator::HasElement(Cow::Borrowed("0.5")),
        DataOperator::HasElement(Cow::Borrowed("2022-01-01T13:00:00+01:00")),
        DataOperator::HasElement(Cow::Borrowed("")),
        DataOperator::HasElementInt(42),
        DataOperator::HasElementFloat(5.0),
        DataOperator::Not(Box::new(DataOperator::HasElement(Cow::Borrowed("5")))),
        DataOperator::Or(vec![DataOperator::HasElement(Cow::Borrowed("true")), DataOperator::HasElementInt(0)]),
        DataOperator::Equals(Cow::Borrowed("TRUE")),
        DataOperator::Equals(Cow::Borrowed("on")),
        DataOperator::Equals(Cow::Borrowed("false")),
        DataOperator::Equals(Cow::Borrowed("+5")),
        DataOperator::Equals(Cow::Borrowed("05")),
        DataOperator::Equals(Cow::Borrowed("5e0")),
        DataOperator::Equals(Cow::Borrowed("-1")),
        DataOperator::Equals(Cow::Borrowed("2022-01-01T13:00:00+01:00")),
        DataOperator::Equals(Cow::Borrowed("null")),
        DataOperator::GreaterThanOrEqualFloat(0.5),
        DataOperator::LessThanFloat(0.5),
        DataOperator::BeforeDatetime(dt("2022-01-01T12:00:00+00:00")),
        DataOperator::AtOrAfterDatetime(dt("2022-01-01T13:00:00+01:00")),
        DataOperator::And(vec![DataOperator::Not(Box::new(DataOperator::Null)), DataOperator::Not(Box::new(DataOperator::Equals(Cow::Borrowed("x"))))]),
    ]
}

/// The comparison semantics of data values as a reference predicate over the model's own value type,
/// written independently of `DataValue::test`: an operator applies to one value type (everything else
/// fails), except the string operand of `Equals`, which every scalar type interprets in its own way
/// (integers and floats parse it, booleans read it as a truth word, datetimes as RFC 3339; instants
/// compare, not their spelling). The element operators apply the corresponding `Equals*` to each
/// element of a list. Negation, conjunction and disjunction are Boolean.
pub fn ref_test(v: &Val, op: &DataOperator) -> bool {
    fn instant(s: &str) -> Option<DateTime<FixedOffset>> {
        DateTime::parse_from_rfc3339(s).ok()
    }
    fn truth_word(s: &str) -> bool {
        matches!(s.to_lowercase().as_str(), "yes" | "1" | "enable" | "enabled" | "on" | "true")
    }
    fn int_of(v: &Val) -> Option<i64> {
        if let Val::Int(n) = v {
            Some(*n)
        } else {
            None
        }
    }
    fn float_of(v: &Val) -> Option<f64> {
        if let Val::Float(f) = v {
            Some(*f)
        } else {
            None
        }
    }
    fn dt_of(v: &Val) -> Option<DateTime<FixedOffset>> {
        if let Val::Datetime(s) = v {
            instant(s)
        } else {
            None
        }
    }
    fn elements(v: &Val) -> &[Val] {
        if let Val::List(l) = v {
            l.as_slice()
        } else {
            &[]
        }
    }
    match op {
        DataOperator::Any => true,
        DataOperator::Null => matches!(v, Val::Null),
        DataOperator::True => matches!(v, Val::Bool(true)),
        DataOperator::False => matches!(v, Val::Bool(false)),
        DataOperator::Equals(s) => match v {
            Val::Str(x) => x.as_str() == s.as_ref(),
            Val::Int(n) => s.parse::<isize>().map(|m| m as i64 == *n).unwrap_or(false),
            Val::Float(f) => s.parse::<f64>().map(|m| m == *f).unwrap_or(false),
            Val::Bool(b) => truth_word(s) == *b,
            Val::Datetime(x) => match (instant(x), instant(s)) {
                (Some(a), Some(b)) => a == b,
                _ => false,
            },
            Val::Null | Val::List(_) => false,
        },
        DataOperator::EqualsInt(m) => int_of(v).map(|n| n == *m as i64).unwrap_or(false),
        DataOperator::GreaterThan(m) => int_of(v).map(|n| n > *m as i64).unwrap_or(false),
        DataOperator::GreaterThanOrEqual(m) => int_of(v).map(|n| n >= *m as i64).unwrap_or(false),
        DataOperator::LessThan(m) => int_of(v).map(|n| n < *m as i64).unwrap_or(false),
        DataOperator::LessThanOrEqual(m) => int_of(v).map(|n| n <= *m as i64).unwrap_or(false),
        DataOperator::EqualsFloat(m) => float_of(v).map(|f| f == *m).unwrap_or(false),
        DataOperator::GreaterThanFloat(m) => float_of(v).map(|f| f > *m).unwrap_or(false),
        DataOperator::GreaterThanOrEqualFloat(m) => float_of(v).map(|f| f >= *m).unwrap_or(false),
        DataOperator::LessThanFloat(m) => float_of(v).map(|f| f < *m).unwrap_or(false),
        DataOperator::LessThanOrEqualFloat(m) => float_of(v).map(|f| f <= *m).unwrap_or(false),
        DataOperator::ExactDatetime(m) => dt_of(v).map(|d| d == *m).unwrap_or(false),
        DataOperator::AfterDatetime(m) => dt_of(v).map(|d| d > *m).unwrap_or(false),
        DataOperator::BeforeDatetime(m) => dt_of(v).map(|d| d < *m).unwrap_or(false),
        DataOperator::AtOrAfterDatetime(m) => dt_of(v).map(|d| d >= *m).unwrap_or(false),
        DataOperator::AtOrBeforeDatetime(m) => dt_of(v).map(|d| d <= *m).unwrap_or(false),
        DataOperator::HasElement(s) => elements(v).iter().any(|e| ref_test(e, &DataOperator::Equals(s.clone()))),
        DataOperator::HasElementInt(m) => elements(v).iter().any(|e| int_of(e) == Some(*m as i64)),
        DataOperator::HasElementFloat(m) => elements(v).iter().any(|e| float_of(e).map(|f| f == *m).unwrap_or(false)),
        DataOperator::Not(o) => !ref_test(v, o),
        DataOperator::And(os) => os.iter().all(|o| ref_test(v, o)),
        DataOperator::Or(os) => os.iter().any(|o| ref_test(v, o)),
    }
}

impl<'a> Checker<'a> {
    /// find_data / test_data / data_by_value on store, dataset and key return exactly what a full
    /// scan of the model's live data selects with the reference comparison semantics (ref_test)
    pub fn check_data_search(&mut self, sample_seed: u64) {
        let store = self.store;
        let m = self.model;
        let mut rng = crate::rng::Rng::new(sample_seed);
        let ops = data_operators();
        for set in m.datasets.iter().filter(|s| s.live) {
            if self.full() {
                return;
            }
            let Some(ds) = store.dataset(sh(set.handle)) else { continue };
            // operators derived from the values present (exact string forms)
            let mut ops_here: Vec<DataOperator<'static>> = Vec::new();
            for d in set.data.iter().filter(|d| d.live).take(6) {
                let s = d.value.to_datavalue().to_string();
                ops_here.push(DataOperator::Equals(std::borrow::Cow::Owned(s)));
            }
            // a sample of the fixed operators per step keeps the cost bounded
            for op in ops.iter() {
                if rng.chance(1, 3) {
                    ops_here.push(op.clone());
                }
            }
            let keys: Vec<Option<(usize, &MKey)>> = std::iter::once(None).chain(set.keys.iter().enumerate().filter(|(_, k)| k.live).map(Some)).collect();
            for key in keys {
                if self.full() {
                    return;
                }
                for op in ops_here.iter() {
                    let ctx = format!("set {} key {:?} op {:?}", set.id, key.map(|(_, k)| k.id.as_str()), op);
                    // scan of the model with the library's own predicate
                    let expected: Vec<usize> = set
                        .data
                        .iter()
                        .filter(|d| d.live && key.map(|(ki, _)| d.key == ki).unwrap_or(true) && ref_test(&d.value, op))
                        .map(|d| d.handle)
                        .collect();
                    // the predicate itself, value by value, against the reference semantics
                    if key.is_none() {
                        for d in set.data.iter().filter(|d| d.live) {
                            let want = ref_test(&d.value, op);
                            let dv = d.value.to_datavalue();
                            let op2 = op.clone();
                            if let Some(got) = self.guarded("C10", "datavalue.test", &ctx, move || dv.test(&op2)) {
                                if got != want {
                                    self.push("C10", "mismatch", "datavalue.test", format!("value {:?} op {:?}: the comparison semantics give {} but DataValue::test gives {}", d.value, op, want, got));
                                }
                            }
                        }
                    }
                    let sethandle = sh(set.handle);
                    let got_store = match key {
                        Some((_, k)) => {
                            let khandle = kh(k.handle);
                            let op2 = op.clone();
                            self.guarded("C10", "store.find_data", &ctx, move || store.find_data(sethandle, khandle, op2).map(|d| d.handle().as_usize()).collect::<Vec<_>>())
                        }
                        None => {
                            let op2 = op.clone();
                            self.guarded("C10", "store.find_data", &ctx, move || store.find_data(sethandle, false, op2).map(|d| d.handle().as_usize()).collect::<Vec<_>>())
                        }
                    };
                    if let Some(got) = got_store {
                        self.cmp_multiset("C10", "store.find_data", &ctx, &expected, &got);
                    }
                    let ds2 = ds.clone();
                    let got_ds = match key {
                        Some((_, k)) => {
                            let khandle = kh(k.handle);
                            let op2 = op.clone();
                            self.guarded("C10", "dataset.find_data", &ctx, move || ds2.find_data(khandle, op2).map(|d| d.handle().as_usize()).collect::<Vec<_>>())
                        }
                        None => {
                            let op2 = op.clone();
                            self.guarded("C10", "dataset.find_data", &ctx, move || ds2.find_data(false, op2).map(|d| d.handle().as_usize()).collect::<Vec<_>>())
                        }
                    };
                    if let Some(got) = got_ds {
                        self.cmp_multiset("C10", "dataset.find_data", &ctx, &expected, &got);
                    }
                    // test_data agrees with "the search finds something"
                    let got_test = match key {
                        Some((_, k)) => {
                            let khandle = kh(k.handle);
                            let op2 = op.clone();
                            self.guarded("C10", "store.test_data", &ctx, move || store.test_data(sethandle, khandle, op2))
                        }
                        None => {
                            let op2 = op.clone();
                            self.guarded("C10", "store.test_data", &ctx, move || store.test_data(sethandle, false, op2))
                        }
                    };
                    if let Some(got) = got_test {
                        if got != !expected.is_empty() {
                            self.push("C10", "mismatch", "store.test_data", format!("{}: expected {} got {}", ctx, !expected.is_empty(), got));
                        }
                    }
                    // via the key itself
                    if let Some((_, k)) = key {
                        if let Some(keyitem) = ds.key(kh(k.handle)) {
                            let op2 = op.clone();
                            if let Some(got) = self.guarded("C10", "key.data.filter_value", &ctx, move || {
                                if let DataOperator::Any = op2 {
                                    keyitem.data().map(|d| d.handle().as_usize()).collect::<Vec<_>>()
                                } else {
                                    keyitem.data().filter_value(op2).map(|d| d.handle().as_usize()).collect::<Vec<_>>()
                                }
                            }) {
                                self.cmp_multiset("C10", "key.data.filter_value", &ctx, &expected, &got);
                            }
                        }
                    }
                }
                // exact value lookup
                if let Some((ki, k)) = key {
                    for d in set.data.iter().filter(|d| d.live && d.key == ki).take(4) {
                        let v = d.value.to_datavalue();
                        let ctx = format!("set {} key {} value {:?}", set.id, k.id, d.value);
                        let khandle = kh(k.handle);
                        if let Some(got) = self.guarded("C10", "dataset.data_by_value", &ctx, || ds.as_ref().data_by_value(khandle, &v).and_then(|x| x.handle()).map(|h| h.as_usize())) {
                            let candidates: Vec<usize> = set.data.iter().filter(|x| x.live && x.key == ki && x.value.to_datavalue() == v).map(|x| x.handle).collect();
                            match got {
                                Some(h) if candidates.contains(&h) => {}
                                other => self.push("C10", "mismatch", "dataset.data_by_value", format!("{}: expected one of {:?} got {:?}", ctx, candidates, other)),
                            }
                        }
                    }
                }
            }
        }
    }
}
