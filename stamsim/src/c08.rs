//! C08: laws of the query engine, evaluated on the store of a running history (tombstones, stale
//! selections, reloaded indices). No STAMQL semantics is written down here: every clause of the
//! property is a relation between two ways of obtaining an answer from the library itself.
//!
//! * conjunction / order: `SELECT T WHERE c1; c2; ..` in every order returns the same set, and that
//!   set is the intersection of the sets of `SELECT T WHERE ci` ("exactly the items that satisfy
//!   all of its constraints")
//! * union: `[a OR b]` returns the union of `a` and `b`, without duplicates, as first and as later constraint
//! * limit: `LIMIT b e` returns the corresponding slice of the unlimited result sequence
//! * sub-queries: the rows equal nested iteration (bind the variable, run the inner query alone)
//! * form: the printed STAMQL text, parsed again, returns the same rows as the programmatic query
//!
//! A combination the library refuses as "not implemented"/"not valid" is not a wrong answer: it is
//! counted (probe) and skipped.

use crate::exec::{catch, normalise_panic, trunc};
use crate::model::Model;
use crate::obs::{related_operators, Checker};
use crate::ops::Val;
use crate::rng::Rng;
use stam::*;
use std::collections::{BTreeMap, BTreeSet};

#[derive(Clone, Copy, Debug, PartialEq, Eq, PartialOrd, Ord)]
pub enum RT {
    Annotation,
    Data,
    Key,
    Text,
    Resource,
    DataSet,
}

impl RT {
    pub const ALL: [RT; 6] = [RT::Annotation, RT::Data, RT::Key, RT::Text, RT::Resource, RT::DataSet];
    fn ty(&self) -> Type {
        match self {
            RT::Annotation => Type::Annotation,
            RT::Data => Type::AnnotationData,
            RT::Key => Type::DataKey,
            RT::Text => Type::TextSelection,
            RT::Resource => Type::TextResource,
            RT::DataSet => Type::AnnotationDataSet,
        }
    }
    fn name(&self) -> &'static str {
        match self {
            RT::Annotation => "annotation",
            RT::Data => "data",
            RT::Key => "key",
            RT::Text => "text",
            RT::Resource => "resource",
            RT::DataSet => "dataset",
        }
    }
}

#[derive(Clone, Debug, PartialEq)]
pub enum Oper {
    Any,
    Null,
    Equals(String),
    EqualsInt(isize),
    EqualsFloat(f64),
    True,
    False,
    Gt(isize),
    Ge(isize),
    Lt(isize),
    Le(isize),
    HasElement(String),
    HasElementInt(isize),
    Not(Box<Oper>),
    Or(Vec<Oper>),
    And(Vec<Oper>),
}

impl Oper {
    fn build<'a>(&'a self) -> DataOperator<'a> {
        match self {
            Oper::Any => DataOperator::Any,
            Oper::Null => DataOperator::Null,
            Oper::Equals(s) => DataOperator::Equals(s.as_str().into()),
            Oper::EqualsInt(i) => DataOperator::EqualsInt(*i),
            Oper::EqualsFloat(f) => DataOperator::EqualsFloat(*f),
            Oper::True => DataOperator::True,
            Oper::False => DataOperator::False,
            Oper::Gt(i) => DataOperator::GreaterThan(*i),
            Oper::Ge(i) => DataOperator::GreaterThanOrEqual(*i),
            Oper::Lt(i) => DataOperator::LessThan(*i),
            Oper::Le(i) => DataOperator::LessThanOrEqual(*i),
            Oper::HasElement(s) => DataOperator::HasElement(s.as_str().into()),
            Oper::HasElementInt(i) => DataOperator::HasElementInt(*i),
            Oper::Not(o) => DataOperator::Not(Box::new(o.build())),
            Oper::Or(v) => DataOperator::Or(v.iter().map(|o| o.build()).collect()),
            Oper::And(v) => DataOperator::And(v.iter().map(|o| o.build()).collect()),
        }
    }
    fn kind(&self) -> &'static str {
        match self {
            Oper::Any => "any",
            Oper::Null => "null",
            Oper::Equals(_) => "eq",
            Oper::EqualsInt(_) => "eqint",
            Oper::EqualsFloat(_) => "eqfloat",
            Oper::True => "true",
            Oper::False => "false",
            Oper::Gt(_) | Oper::Ge(_) | Oper::Lt(_) | Oper::Le(_) => "cmp",
            Oper::HasElement(_) | Oper::HasElementInt(_) => "haselement",
            Oper::Not(_) => "not",
            Oper::Or(_) => "or",
            Oper::And(_) => "and",
        }
    }
}

#[derive(Clone, Debug, PartialEq)]
pub enum QC {
    Id(String),
    Resource { id: String, meta: bool },
    Annotation { id: String, meta: bool, depth: u8 },
    DataSet { id: String, meta: bool },
    Key { set: String, key: String, meta: bool },
    KeyValue { set: String, key: String, op: Oper, meta: bool },
    Value(Oper),
    Text(String, bool),
    Regex(String),
    Union(Vec<QC>),
    Limit(isize, isize),
    AnnVar { var: String, meta: bool, depth: u8 },
    DataVar { var: String, meta: bool },
    KeyVar { var: String, meta: bool },
    KeyValueVar { var: String, op: Oper, meta: bool },
    SetVar { var: String, meta: bool },
    ResVar { var: String, meta: bool },
    TextVar { var: String },
    Relation { var: String, op: usize },
}

fn qual(meta: bool) -> SelectionQualifier {
    if meta {
        SelectionQualifier::Metadata
    } else {
        SelectionQualifier::Normal
    }
}
fn depth(d: u8) -> AnnotationDepth {
    match d {
        0 => AnnotationDepth::Zero,
        1 => AnnotationDepth::One,
        _ => AnnotationDepth::Max,
    }
}

impl QC {
    fn build<'a>(&'a self) -> Option<Constraint<'a>> {
        Some(match self {
            QC::Id(id) => Constraint::Id(id),
            QC::Resource { id, meta } => Constraint::TextResource(id, qual(*meta), None),
            QC::Annotation { id, meta, depth: d } => Constraint::Annotation(id, qual(*meta), depth(*d), None),
            QC::DataSet { id, meta } => Constraint::DataSet(id, qual(*meta)),
            QC::Key { set, key, meta } => Constraint::DataKey { set, key, qualifier: qual(*meta) },
            QC::KeyValue { set, key, op, meta } => Constraint::KeyValue { set, key, operator: op.build(), qualifier: qual(*meta) },
            QC::Value(op) => Constraint::Value(op.build(), SelectionQualifier::Normal),
            QC::Text(t, nocase) => Constraint::Text(t, if *nocase { TextMode::CaseInsensitive } else { TextMode::Exact }),
            QC::Regex(r) => Constraint::Regex(Regex::new(r).ok()?),
            QC::Union(v) => {
                let mut out = Vec::new();
                for c in v {
                    out.push(c.build()?);
                }
                Constraint::Union(out)
            }
            QC::Limit(b, e) => Constraint::Limit { begin: *b, end: *e },
            QC::AnnVar { var, meta, depth: d } => Constraint::AnnotationVariable(var, qual(*meta), depth(*d), None),
            QC::DataVar { var, meta } => Constraint::DataVariable(var, qual(*meta)),
            QC::KeyVar { var, meta } => Constraint::KeyVariable(var, qual(*meta)),
            QC::KeyValueVar { var, op, meta } => Constraint::KeyValueVariable(var, op.build(), qual(*meta)),
            QC::SetVar { var, meta } => Constraint::DataSetVariable(var, qual(*meta)),
            QC::ResVar { var, meta } => Constraint::ResourceVariable(var, qual(*meta), None),
            QC::TextVar { var } => Constraint::TextVariable(var),
            QC::Relation { var, op } => Constraint::TextRelation { var, operator: related_operators()[*op % related_operators().len()] },
        })
    }
    /// stable kind (no instance data) for signatures
    pub fn kind(&self) -> String {
        let m = |b: &bool| if *b { "+meta" } else { "" };
        match self {
            QC::Id(_) => "id".into(),
            QC::Resource { meta, .. } => format!("resource{}", m(meta)),
            QC::Annotation { meta, depth, .. } => format!("annotation{}{}", m(meta), match depth { 0 => "+d0", 1 => "", _ => "+rec" }),
            QC::DataSet { meta, .. } => format!("dataset{}", m(meta)),
            QC::Key { meta, .. } => format!("key{}", m(meta)),
            QC::KeyValue { meta, op, .. } => format!("keyvalue{}:{}", m(meta), op.kind()),
            QC::Value(op) => format!("value:{}", op.kind()),
            QC::Text(_, nocase) => if *nocase { "text+nocase".into() } else { "text".into() },
            QC::Regex(_) => "regex".into(),
            QC::Union(v) => format!("union[{}]", v.iter().map(|c| c.kind()).collect::<Vec<_>>().join("|")),
            QC::Limit(..) => "limit".into(),
            QC::AnnVar { meta, depth, .. } => format!("annvar{}{}", m(meta), match depth { 0 => "+d0", 1 => "", _ => "+rec" }),
            QC::DataVar { meta, .. } => format!("datavar{}", m(meta)),
            QC::KeyVar { meta, .. } => format!("keyvar{}", m(meta)),
            QC::KeyValueVar { meta, op, .. } => format!("keyvaluevar{}:{}", m(meta), op.kind()),
            QC::SetVar { meta, .. } => format!("setvar{}", m(meta)),
            QC::ResVar { meta, .. } => format!("resvar{}", m(meta)),
            QC::TextVar { .. } => "textvar".into(),
            QC::Relation { op, .. } => format!("relation:{}", crate::obs::op_key_pub(&related_operators()[*op % related_operators().len()])),
        }
    }
    fn printable(&self) -> bool {
        // outside the clear part of the textual form: quoting inside string arguments
        let ok = |s: &str| !s.contains('"') && !s.contains('\\') && !s.contains(';') && !s.contains('\n') && !s.is_empty() && s.trim() == s;
        match self {
            QC::Text(t, _) => ok(t),
            QC::Regex(t) => ok(t),
            QC::Union(v) => v.iter().all(|c| c.printable()),
            QC::KeyValue { op, .. } | QC::Value(op) => oper_printable(op),
            // a key variable prints as `DATA ?x`, which is the syntax of a data variable: no textual form of its own
            QC::KeyVar { .. } | QC::KeyValueVar { .. } => false,
            // the textual form has the ten plain relation keywords only (no negation, all, limit, whitespace modifiers)
            QC::Relation { op, .. } => {
                let o = related_operators()[*op % related_operators().len()];
                [
                    TextSelectionOperator::equals(),
                    TextSelectionOperator::embeds(),
                    TextSelectionOperator::embedded(),
                    TextSelectionOperator::overlaps(),
                    TextSelectionOperator::precedes(),
                    TextSelectionOperator::succeeds(),
                    TextSelectionOperator::samebegin(),
                    TextSelectionOperator::sameend(),
                    TextSelectionOperator::before(),
                    TextSelectionOperator::after(),
                ]
                .contains(&o)
            }
            _ => true,
        }
    }
}

fn oper_printable(op: &Oper) -> bool {
    let ok = |s: &str| !s.contains('"') && !s.contains('\\') && !s.contains(';') && !s.contains('\n') && !s.contains('|') && !s.is_empty() && s.trim() == s;
    match op {
        Oper::Equals(s) | Oper::HasElement(s) => ok(s),
        Oper::Not(o) => oper_printable(o),
        Oper::Or(v) | Oper::And(v) => v.iter().all(oper_printable),
        _ => true,
    }
}

#[derive(Clone, Debug, PartialEq)]
pub struct Q {
    pub rt: RT,
    pub name: Option<String>,
    pub optional: bool,
    pub cs: Vec<QC>,
    pub sub: Option<Box<Q>>,
}

impl Q {
    pub fn simple(rt: RT, cs: Vec<QC>) -> Q {
        Q { rt, name: None, optional: false, cs, sub: None }
    }
    fn build<'a>(&'a self) -> Option<Query<'a>> {
        let mut q = Query::new(QueryType::Select, Some(self.rt.ty()), self.name.as_deref());
        if self.optional {
            q = q.with_qualifier(QueryQualifier::Optional);
        }
        for c in self.cs.iter() {
            q = q.with_constraint(c.build()?);
        }
        if let Some(sub) = self.sub.as_ref() {
            q = q.with_subquery(sub.build()?);
        }
        Some(q)
    }
    fn printable(&self) -> bool {
        self.cs.iter().all(|c| c.printable()) && self.sub.as_ref().map(|s| s.printable()).unwrap_or(true)
    }
    fn describe(&self) -> String {
        let mut s = format!("SELECT {}{}{} WHERE {:?}", if self.optional { "OPTIONAL " } else { "" }, self.rt.name(), self.name.as_ref().map(|n| format!(" ?{}", n)).unwrap_or_default(), self.cs);
        if let Some(sub) = self.sub.as_ref() {
            s += &format!(" {{ {} }}", sub.describe());
        }
        trunc(&mut s, 500);
        s
    }
}

#[derive(Clone, Debug, PartialEq, Eq, PartialOrd, Ord, Hash)]
pub enum Item {
    None,
    Ann(usize),
    Data(usize, usize),
    Key(usize, usize),
    Text(usize, usize, usize),
    Res(usize),
    Set(usize),
    Other,
}

fn item_of(r: &QueryResultItem) -> Item {
    match r {
        QueryResultItem::None => Item::None,
        QueryResultItem::Annotation(a) => Item::Ann(a.handle().as_usize()),
        QueryResultItem::AnnotationData(d) => Item::Data(d.set().handle().as_usize(), d.handle().as_usize()),
        QueryResultItem::DataKey(k) => Item::Key(k.set().handle().as_usize(), k.handle().as_usize()),
        QueryResultItem::TextSelection(t) => Item::Text(t.resource().handle().as_usize(), t.begin(), t.end()),
        QueryResultItem::TextResource(r) => Item::Res(r.handle().as_usize()),
        QueryResultItem::AnnotationDataSet(s) => Item::Set(s.handle().as_usize()),
        _ => Item::Other,
    }
}

#[derive(Clone, Debug, PartialEq)]
pub enum Run {
    Rows(Vec<Vec<Item>>),
    /// refused as not implemented / not valid for this position or result type
    NotImpl(String),
    Err(String),
    Panic(String),
}

fn classify_err(e: String) -> Run {
    let l = e.to_lowercase();
    if l.contains("not implemented") || l.contains("no query syntax yet") || l.contains("is not valid for") || l.contains("not yet implemented") || l.contains("not supported") {
        Run::NotImpl(e)
    } else {
        Run::Err(e)
    }
}

pub type Ctx = Vec<(String, Item)>;

fn bind<'s>(store: &'s AnnotationStore, query: &mut Query<'s>, ctx: &Ctx) -> Result<(), String> {
    for (name, item) in ctx {
        match item {
            Item::Ann(h) => {
                let a = store.annotation(AnnotationHandle::new(*h)).ok_or("ctx annotation")?;
                query.bind_annotationvar(name.clone(), &a);
            }
            Item::Data(s, d) => {
                let set = store.dataset(AnnotationDataSetHandle::new(*s)).ok_or("ctx set")?;
                let d = set.annotationdata(AnnotationDataHandle::new(*d)).ok_or("ctx data")?;
                query.bind_datavar(name.clone(), &d);
            }
            Item::Key(s, k) => {
                let set = store.dataset(AnnotationDataSetHandle::new(*s)).ok_or("ctx set")?;
                let k = set.key(DataKeyHandle::new(*k)).ok_or("ctx key")?;
                query.bind_keyvar(name.clone(), &k);
            }
            Item::Text(r, b, e) => {
                let res = store.resource(TextResourceHandle::new(*r)).ok_or("ctx resource")?;
                let t = res.textselection(&Offset::simple(*b, *e)).map_err(|e| format!("ctx text: {}", e))?;
                query.bind_textvar(name.clone(), &t);
            }
            Item::Res(r) => {
                let res = store.resource(TextResourceHandle::new(*r)).ok_or("ctx resource")?;
                query.bind_resourcevar(name.clone(), &res);
            }
            Item::Set(s) => {
                let set = store.dataset(AnnotationDataSetHandle::new(*s)).ok_or("ctx set")?;
                query.bind_datasetvar(name.clone(), &set);
            }
            _ => {}
        }
    }
    Ok(())
}

fn run_query<'s>(store: &'s AnnotationStore, query: Query<'s>) -> Run {
    let _ = stam::verif_hooks::take_query_errors();
    let r = catch(|| -> Result<Vec<Vec<Item>>, String> {
        let iter = store.query(query).map_err(|e| format!("{}", e))?;
        let mut rows = Vec::new();
        for row in iter {
            rows.push(row.iter().map(item_of).collect::<Vec<_>>());
            if rows.len() > 20000 {
                return Err("more than 20000 rows".to_string());
            }
        }
        Ok(rows)
    });
    // hook H6: the iterator prints evaluation errors to stderr and ends; a refused query is not an empty answer
    let errors = stam::verif_hooks::take_query_errors();
    if let (Ok(Ok(_)), Some(e)) = (&r, errors.first()) {
        return classify_err(e.clone());
    }
    match r {
        Ok(Ok(rows)) => Run::Rows(rows),
        Ok(Err(e)) => classify_err(e),
        Err(p) => {
            let p = normalise_panic(&p);
            match classify_err(p.clone()) {
                Run::NotImpl(e) => Run::NotImpl(format!("panic: {}", e)),
                _ => Run::Panic(p),
            }
        }
    }
}

/// evaluate programmatically
pub fn eval(store: &AnnotationStore, q: &Q, ctx: &Ctx) -> Run {
    let Some(mut query) = q.build() else { return Run::NotImpl("unbuildable".into()) };
    if let Err(e) = bind(store, &mut query, ctx) {
        return Run::Err(e);
    }
    run_query(store, query)
}

/// print to STAMQL and evaluate the parsed text
pub fn eval_text(store: &AnnotationStore, q: &Q, ctx: &Ctx) -> (Option<String>, Run) {
    let Some(query) = q.build() else { return (None, Run::NotImpl("unbuildable".into())) };
    let text = match catch(|| query.to_string()) {
        Ok(Ok(t)) => t,
        Ok(Err(e)) => return (None, classify_err(format!("to_string: {}", e))),
        Err(p) => return (None, Run::Panic(format!("to_string: {}", normalise_panic(&p)))),
    };
    let parsed = catch(|| Query::parse(text.as_str()).map(|(q, rest)| (q, rest.to_string())));
    let run = match parsed {
        Ok(Ok((mut query2, rest))) => {
            if !rest.trim().is_empty() {
                Run::Err(format!("parse left a remainder: {:?}", rest))
            } else if let Err(e) = bind(store, &mut query2, ctx) {
                Run::Err(e)
            } else {
                run_query(store, query2)
            }
        }
        // whether printed text parses again is the print->parse fixpoint of C09 (a pure function of a
        // string, not claimed): counted, not judged here
        Ok(Err(e)) => Run::NotImpl(format!("printed text does not parse: {}", e)),
        Err(p) => Run::Panic(format!("parse: {}", normalise_panic(&p))),
    };
    (Some(text), run)
}

fn last_col(rows: &[Vec<Item>]) -> Vec<Item> {
    rows.iter().map(|r| r.last().cloned().unwrap_or(Item::None)).collect()
}

fn to_set(v: &[Item]) -> BTreeSet<Item> {
    v.iter().cloned().collect()
}

pub fn slice_limit<T: Clone>(seq: &[T], b: isize, e: isize) -> Vec<T> {
    let n = seq.len() as isize;
    let bb = if b < 0 { (n + b).max(0) } else { b.min(n) };
    let ee = if e == 0 { n } else if e < 0 { (n + e).max(0) } else { e.min(n) };
    if ee <= bb {
        Vec::new()
    } else {
        seq[bb as usize..ee as usize].to_vec()
    }
}

// ------------------------------------------------------------------------------------- pools

fn opers_for(v: &Val, rng: &mut Rng) -> Vec<Oper> {
    let mut out = vec![Oper::Any];
    match v {
        Val::Null => out.push(Oper::Null),
        Val::Bool(b) => {
            out.push(if *b { Oper::True } else { Oper::False });
            out.push(Oper::Not(Box::new(Oper::True)));
        }
        Val::Int(i) => {
            let i = *i as isize;
            out.push(Oper::EqualsInt(i));
            out.push(Oper::Ge(i));
            out.push(Oper::Lt(i));
            out.push(Oper::Not(Box::new(Oper::EqualsInt(i))));
            out.push(Oper::Or(vec![Oper::EqualsInt(i), Oper::Null]));
        }
        Val::Float(f) => {
            out.push(Oper::EqualsFloat(*f));
        }
        Val::Str(s) => {
            out.push(Oper::Equals(s.clone()));
            out.push(Oper::Not(Box::new(Oper::Equals(s.clone()))));
            out.push(Oper::Or(vec![Oper::Equals(s.clone()), Oper::True]));
            out.push(Oper::And(vec![Oper::Not(Box::new(Oper::Null)), Oper::Equals(s.clone())]));
        }
        Val::List(l) => {
            for x in l.iter().take(2) {
                match x {
                    Val::Str(s) => out.push(Oper::HasElement(s.clone())),
                    Val::Int(i) => out.push(Oper::HasElementInt(*i as isize)),
                    _ => {}
                }
            }
        }
        Val::Datetime(_) => {}
    }
    rng.shuffle(&mut out);
    out.truncate(3);
    out
}

pub struct Pools {
    pub generic: Vec<QC>,
    pub ann_ids: Vec<String>,
}

fn ann_ref(m: &Model, i: usize) -> String {
    let a = &m.annotations[i];
    a.id.clone().unwrap_or_else(|| format!("!A{}", a.handle))
}

/// constraints that refer to what the model says is in the store
pub fn build_pool(m: &Model, store: &AnnotationStore, rng: &mut Rng) -> Pools {
    let mut pool: Vec<QC> = Vec::new();
    let live_ann: Vec<usize> = (0..m.annotations.len()).filter(|i| m.annotations[*i].live).collect();
    let mut ann_ids = Vec::new();
    let mut pick_ann: Vec<usize> = live_ann.clone();
    rng.shuffle(&mut pick_ann);
    for i in pick_ann.iter().take(4) {
        let id = ann_ref(m, *i);
        ann_ids.push(id.clone());
        pool.push(QC::Annotation { id: id.clone(), meta: false, depth: 1 });
        pool.push(QC::Annotation { id: id.clone(), meta: true, depth: 1 });
        if rng.chance(1, 2) {
            pool.push(QC::Annotation { id: id.clone(), meta: false, depth: 2 });
        }
        // (depth zero has no STAMQL form and is only used internally for ADD results: not generated)
    }
    let mut res: Vec<&crate::model::MRes> = m.resources.iter().filter(|r| r.live).collect();
    // case-insensitive text search panics on texts whose lower-casing changes their length in bytes or
    // codepoints (text search is C07, not claimed): TEXT AS NOCASE is only generated when no live text has such characters
    let nocase_ok = res.iter().all(|r| {
        r.text.iter().all(|c| {
            let mut l = c.to_lowercase();
            match (l.next(), l.next()) {
                (Some(x), None) => x.len_utf8() == c.len_utf8(),
                _ => false,
            }
        })
    });
    rng.shuffle(&mut res);
    for r in res.iter().take(3) {
        pool.push(QC::Resource { id: r.id.clone(), meta: false });
        pool.push(QC::Resource { id: r.id.clone(), meta: true });
        // needles: the text of a known selection, a random slice, and a case variant
        let mut needles: Vec<String> = Vec::new();
        for (b, e) in r.sels.iter().take(6) {
            if e > b && e - b <= 8 {
                needles.push(r.text[*b..*e].iter().collect());
            }
        }
        if !r.text.is_empty() {
            let b = rng.below(r.text.len());
            let e = (b + 1 + rng.below(3)).min(r.text.len());
            needles.push(r.text[b..e].iter().collect());
        }
        rng.shuffle(&mut needles);
        for n in needles.into_iter().take(2) {
            // a needle that can overlap itself ("aa", "  ", "aba") has occurrences that a non-overlapping
            // search does not list although their text equals the needle: which of them "satisfy" TEXT is unspecified
            if n.is_empty() || has_border(&n) {
                continue;
            }
            pool.push(QC::Text(n.clone(), false));
            // (case folding that changes the byte length makes find_text_nocase panic: text search is C07, not claimed)
            if rng.chance(1, 2) && nocase_ok {
                pool.push(QC::Text(n.to_uppercase(), true));
            }
            if rng.chance(1, 2) {
                pool.push(QC::Regex(regex_escape(&n)));
            }
        }
    }
    if rng.chance(1, 2) {
        pool.push(QC::Regex("[a-z]+".to_string()));
    }
    let mut sets: Vec<&crate::model::MSet> = m.datasets.iter().filter(|s| s.live).collect();
    rng.shuffle(&mut sets);
    for s in sets.iter().take(3) {
        pool.push(QC::DataSet { id: s.id.clone(), meta: false });
        pool.push(QC::DataSet { id: s.id.clone(), meta: true });
        let mut keys: Vec<&crate::model::MKey> = s.keys.iter().filter(|k| k.live).collect();
        rng.shuffle(&mut keys);
        for k in keys.iter().take(2) {
            pool.push(QC::Key { set: s.id.clone(), key: k.id.clone(), meta: false });
            if rng.chance(1, 2) {
                pool.push(QC::Key { set: s.id.clone(), key: k.id.clone(), meta: true });
            }
        }
        let mut data: Vec<&crate::model::MData> = s.data.iter().filter(|d| d.live).collect();
        rng.shuffle(&mut data);
        for d in data.iter().take(3) {
            let key = &s.keys[d.key];
            for op in opers_for(&d.value, rng) {
                if rng.chance(2, 3) {
                    pool.push(QC::KeyValue { set: s.id.clone(), key: key.id.clone(), op: op.clone(), meta: false });
                } else if rng.chance(1, 2) {
                    pool.push(QC::KeyValue { set: s.id.clone(), key: key.id.clone(), op: op.clone(), meta: true });
                }
                if rng.chance(1, 3) {
                    pool.push(QC::Value(op));
                }
            }
        }
    }
    let _ = store;
    Pools { generic: pool, ann_ids }
}

fn has_border(s: &str) -> bool {
    let c: Vec<char> = s.chars().collect();
    (1..c.len()).any(|k| c[..k] == c[c.len() - k..])
}

fn sel_has_annotation(s: &crate::model::MSel) -> bool {
    use crate::model::MSel;
    match s {
        MSel::Ann { .. } => true,
        MSel::Multi(v) | MSel::Composite(v) | MSel::Directional(v) => v.iter().any(sel_has_annotation),
        _ => false,
    }
}

fn regex_escape(s: &str) -> String {
    let mut out = String::new();
    for c in s.chars() {
        if "\\.+*?()|[]{}^$#&-~".contains(c) {
            out.push('\\');
        }
        out.push(c);
    }
    out
}

fn id_constraint(m: &Model, rt: RT, rng: &mut Rng) -> Option<QC> {
    match rt {
        RT::Annotation => {
            let live: Vec<usize> = (0..m.annotations.len()).filter(|i| m.annotations[*i].live).collect();
            if live.is_empty() {
                None
            } else {
                Some(QC::Id(ann_ref(m, *rng.pick(&live))))
            }
        }
        RT::Resource => {
            let live: Vec<&crate::model::MRes> = m.resources.iter().filter(|r| r.live).collect();
            if live.is_empty() {
                None
            } else {
                Some(QC::Id(rng.pick(&live).id.clone()))
            }
        }
        RT::DataSet => {
            let live: Vec<&crate::model::MSet> = m.datasets.iter().filter(|r| r.live).collect();
            if live.is_empty() {
                None
            } else {
                Some(QC::Id(rng.pick(&live).id.clone()))
            }
        }
        _ => None,
    }
}

// ------------------------------------------------------------------------------------- laws

pub struct QueryStats {
    pub evaluated: usize,
    pub notimpl: usize,
    pub laws: BTreeMap<&'static str, usize>,
}

impl<'a> Checker<'a> {
    fn q_violation(&mut self, class: &'static str, key: String, detail: String) {
        let mut d = detail;
        trunc(&mut d, 900);
        self.out.push(crate::obs::Violation::new("C08", class, key, d));
    }

    fn q_full(&self) -> bool {
        self.out.len() >= self.limit
    }

    /// the query laws; `budget` bounds the number of query evaluations
    pub fn check_queries(&mut self, sample_seed: u64, budget: usize, flags: &[String], stats: &mut BTreeMap<&'static str, usize>) {
        let flag = |f: &str| flags.iter().any(|x| x == f);
        let (f_optional, f_indirect, f_multisel) = (flag("optional"), flag("indirect"), flag("multisel"));
        let store = self.store;
        let m = self.model;
        let mut rng = Rng::new(sample_seed);
        let pools = build_pool(m, store, &mut rng);
        let mut evals = 0usize;
        let count = |stats: &mut BTreeMap<&'static str, usize>, k: &'static str| {
            *stats.entry(k).or_insert(0) += 1;
        };
        let no_ctx: Ctx = Vec::new();
        let flat = !m.annotations.iter().any(|a| a.live && sel_has_annotation(&a.target));

        // ---------------------------------------------------------------- single result type laws
        let mut rts = RT::ALL.to_vec();
        rng.shuffle(&mut rts);
        for rt in rts {
            if self.q_full() || evals > budget {
                break;
            }
            let mut pool = pools.generic.clone();
            for _ in 0..2 {
                if let Some(c) = id_constraint(m, rt, &mut rng) {
                    pool.push(c);
                }
            }
            if pool.is_empty() {
                continue;
            }
            // singles, memoised
            let mut singles: BTreeMap<usize, Run> = BTreeMap::new();
            let all = eval(store, &Q::simple(rt, vec![]), &no_ctx);
            evals += 1;
            let Run::Rows(all_rows) = &all else {
                if let Run::Panic(p) = &all {
                    self.q_violation("panic", format!("select_all:{}", rt.name()), p.clone());
                }
                continue;
            };
            let universe = last_col(all_rows);
            let n_samples = 10;
            for _ in 0..n_samples {
                if self.q_full() || evals > budget {
                    break;
                }
                let n = *rng.pick(&[1usize, 2, 2, 2, 3]);
                let mut idx: Vec<usize> = Vec::new();
                for _ in 0..n {
                    let i = rng.below(pool.len());
                    if !idx.contains(&i) {
                        idx.push(i);
                    }
                }
                for i in idx.iter() {
                    if !singles.contains_key(i) {
                        let r = eval(store, &Q::simple(rt, vec![pool[*i].clone()]), &no_ctx);
                        evals += 1;
                        singles.insert(*i, r);
                    }
                }
                // single-constraint laws: subset of the universe, form
                for i in idx.iter() {
                    let c = &pool[*i];
                    match singles.get(i).unwrap() {
                        Run::Panic(p) => {
                            let p = p.clone();
                            self.q_violation("panic", format!("single:{}:{}", rt.name(), c.kind()), format!("{:?}: {}", c, p));
                        }
                        Run::Rows(rows) => {
                            count(stats, "c08.single_evaluated");
                            let col = last_col(rows);
                            if rt != RT::Text {
                                // (text results may be unknown selections; every other type must come from the store's items)
                                let u = to_set(&universe);
                                let extra: Vec<&Item> = col.iter().filter(|x| !u.contains(x)).collect();
                                if !extra.is_empty() {
                                    self.q_violation("extra", format!("single:{}:{}", rt.name(), c.kind()), format!("{:?} returned items that SELECT {} (no constraints) does not: {:?}", c, rt.name(), extra));
                                }
                            }
                        }
                        Run::NotImpl(_) => count(stats, "c08.single_notimplemented"),
                        Run::Err(_) => count(stats, "c08.single_error"),
                    }
                }
                if idx.len() == 1 {
                    let c = &pool[idx[0]];
                    // form
                    if let Some(Run::Rows(rows)) = singles.get(&idx[0]) {
                        let q = Q::simple(rt, vec![c.clone()]);
                        if q.printable() {
                            let (text, r2) = eval_text(store, &q, &no_ctx);
                            evals += 1;
                            self.form_law(&q, rows, text, r2, stats);
                        }
                        // limit
                        let col = last_col(rows);
                        for _ in 0..2 {
                            let n = col.len() as isize;
                            let b = rng.below((n + 3) as usize) as isize - if rng.chance(1, 2) { n + 1 } else { 0 };
                            let e = rng.below((n + 3) as usize) as isize - if rng.chance(1, 2) { n + 1 } else { 0 };
                            let ql = Q::simple(rt, vec![c.clone(), QC::Limit(b, e)]);
                            let r = eval(store, &ql, &no_ctx);
                            evals += 1;
                            self.limit_law(&ql, &col, b, e, r, stats);
                        }
                    }
                    continue;
                }
                // conjunction in every order
                let cs: Vec<QC> = idx.iter().map(|i| pool[*i].clone()).collect();
                // listed finding (forward look-ups recurse through annotation selectors, reverse look-ups do not):
                // RESOURCE constraints on annotations, and every constraint on resources, answer differently as
                // first and as later constraint as soon as there are annotations on annotations
                if !flat && !f_indirect && ((rt == RT::Annotation && cs.iter().any(|c| matches!(c, QC::Resource { .. }))) || rt == RT::Resource) {
                    count(stats, "c08.quarantined_indirect_targets");
                    continue;
                }
                let mut expected: Option<BTreeSet<Item>> = Some(to_set(&universe));
                for i in idx.iter() {
                    match singles.get(i).unwrap() {
                        Run::Rows(rows) => {
                            let s = to_set(&last_col(rows));
                            expected = expected.map(|e| e.intersection(&s).cloned().collect());
                        }
                        _ => expected = None,
                    }
                }
                // text results may be selections nobody annotated (found occurrences); "the items" of a
                // text query are the selections of live annotations, and sets are compared on that domain
                let u = to_set(&universe);
                // listed finding (text constraint on annotations): as first constraint TEXT selects annotations
                // with *a* selection equal to an occurrence, as later constraint it compares the annotation's
                // whole text; both agree on annotations with exactly one text selection, which is the domain here
                let has_text_constraint = cs.iter().any(|c| matches!(c, QC::Text(..) | QC::Regex(..)));
                let has_text_constraint = has_text_constraint && !f_multisel;
                let single_sel: BTreeSet<Item> = if rt == RT::Annotation && has_text_constraint {
                    u.iter()
                        .filter(|x| match x {
                            Item::Ann(h) => store.annotation(AnnotationHandle::new(*h)).map(|a| catch(|| a.textselections().count()).unwrap_or(0) == 1).unwrap_or(false),
                            _ => false,
                        })
                        .cloned()
                        .collect()
                } else {
                    BTreeSet::new()
                };
                let dom = |s: BTreeSet<Item>| -> BTreeSet<Item> {
                    if rt == RT::Text {
                        s.intersection(&u).cloned().collect()
                    } else if rt == RT::Annotation && has_text_constraint {
                        s.intersection(&single_sel).cloned().collect()
                    } else {
                        s
                    }
                };
                let expected = expected.map(|e| dom(e));
                let mut perms: Vec<Vec<usize>> = Vec::new();
                permutations(&(0..cs.len()).collect::<Vec<_>>(), &mut perms);
                let mut results: Vec<(Vec<usize>, Run)> = Vec::new();
                for p in perms {
                    let q = Q::simple(rt, p.iter().map(|i| cs[*i].clone()).collect());
                    let r = eval(store, &q, &no_ctx);
                    evals += 1;
                    results.push((p, r));
                }
                let kinds_sorted = {
                    let mut k: Vec<String> = cs.iter().map(|c| c.kind()).collect();
                    k.sort();
                    k.join("&")
                };
                let mut first_ok: Option<(Vec<usize>, BTreeSet<Item>)> = None;
                for (p, r) in results.iter() {
                    let order = p.iter().map(|i| cs[*i].kind()).collect::<Vec<_>>().join(">");
                    match r {
                        Run::Panic(msg) => {
                            self.q_violation("panic", format!("conj:{}:{}", rt.name(), order), format!("{:?}: {}", p.iter().map(|i| &cs[*i]).collect::<Vec<_>>(), msg));
                        }
                        Run::NotImpl(_) => count(stats, "c08.order_notimplemented"),
                        Run::Err(e) => {
                            // an order that is refused although each constraint alone is accepted and another order is accepted
                            count(stats, "c08.order_error");
                            let _ = e;
                        }
                        Run::Rows(rows) => {
                            count(stats, "c08.order_evaluated");
                            let s = dom(to_set(&last_col(rows)));
                            if let Some(exp) = expected.as_ref() {
                                if &s != exp {
                                    let missing: Vec<&Item> = exp.difference(&s).collect();
                                    let extra: Vec<&Item> = s.difference(exp).collect();
                                    let class = if !missing.is_empty() && extra.is_empty() { "missing" } else if missing.is_empty() { "extra" } else { "mismatch" };
                                    self.q_violation(
                                        class,
                                        format!("conj:{}:{}", rt.name(), order),
                                        format!("SELECT {} WHERE {:?} is not the intersection of its constraints taken alone: missing {:?} extra {:?}", rt.name(), p.iter().map(|i| &cs[*i]).collect::<Vec<_>>(), missing, extra),
                                    );
                                }
                            }
                            match first_ok.as_ref() {
                                None => first_ok = Some((p.clone(), s)),
                                Some((p0, s0)) => {
                                    if s0 != &s && expected.is_none() {
                                        self.q_violation(
                                            "divergence",
                                            format!("order:{}:{}", rt.name(), kinds_sorted),
                                            format!("SELECT {} with {:?} gives {:?} but with {:?} gives {:?}", rt.name(), p0.iter().map(|i| &cs[*i]).collect::<Vec<_>>(), s0, p.iter().map(|i| &cs[*i]).collect::<Vec<_>>(), s),
                                        );
                                    }
                                }
                            }
                        }
                    }
                }
                // union of the first two, alone and as a later constraint
                if cs.len() >= 2 && rng.chance(1, 2) {
                    let (a, b) = (&cs[0], &cs[1]);
                    if let (Some(Run::Rows(ra)), Some(Run::Rows(rb))) = (singles.get(&idx[0]), singles.get(&idx[1])) {
                        let sa = to_set(&last_col(ra));
                        let sb = to_set(&last_col(rb));
                        let exp: BTreeSet<Item> = dom(sa.union(&sb).cloned().collect());
                        let domain = if rt == RT::Text {
                            Some(&u)
                        } else if rt == RT::Annotation && has_text_constraint {
                            Some(&single_sel)
                        } else {
                            None
                        };
                        let u = QC::Union(vec![a.clone(), b.clone()]);
                        let q = Q::simple(rt, vec![u.clone()]);
                        let r = eval(store, &q, &no_ctx);
                        evals += 1;
                        self.union_law(&q, &exp, domain, r, format!("union:{}:{}|{}", rt.name(), a.kind(), b.kind()), false, stats);
                        if cs.len() >= 3 {
                            if let Some(Run::Rows(rc)) = singles.get(&idx[2]) {
                                let col_c = last_col(rc);
                                let sc = to_set(&col_c);
                                let leading_dups = sc.len() != col_c.len();
                                let exp2: BTreeSet<Item> = exp.intersection(&sc).cloned().collect();
                                let q = Q::simple(rt, vec![cs[2].clone(), u.clone()]);
                                let r = eval(store, &q, &no_ctx);
                                evals += 1;
                                self.union_law(&q, &exp2, domain, r, format!("union_later:{}:{}>{}|{}", rt.name(), cs[2].kind(), a.kind(), b.kind()), leading_dups, stats);
                            }
                        }
                        if q.printable() {
                            if let Run::Rows(rows) = eval(store, &q, &no_ctx) {
                                let (text, r2) = eval_text(store, &q, &no_ctx);
                                evals += 2;
                                self.form_law(&q, &rows, text, r2, stats);
                            }
                        }
                    }
                }
            }
        }

        // ---------------------------------------------------------------- sub-queries
        if !self.q_full() && evals <= budget {
            self.check_subqueries(&pools, &mut rng, &mut evals, budget, f_optional, stats);
        }
        *stats.entry("c08.query_evaluations").or_insert(0) += evals;
    }

    fn form_law(&mut self, q: &Q, rows: &[Vec<Item>], text: Option<String>, r2: Run, stats: &mut BTreeMap<&'static str, usize>) {
        let kinds = q_kinds(q);
        match r2 {
            Run::Rows(rows2) => {
                *stats.entry("c08.form_evaluated").or_insert(0) += 1;
                if rows2 != rows {
                    self.q_violation("divergence", format!("form:{}", kinds), format!("{} built programmatically gives {:?}; printed as {:?} and parsed it gives {:?}", q.describe(), rows, text, rows2));
                }
            }
            Run::NotImpl(e) => {
                if std::env::var("VERIF_C08_DEBUG").is_ok() {
                    eprintln!("FORM-NOTIMPL {:?} :: {}", text, e);
                }
                *stats.entry("c08.form_text_not_parsed_or_not_implemented").or_insert(0) += 1
            }
            Run::Err(e) => {
                self.q_violation("outcome", format!("form:{}", kinds), format!("{} evaluates when built programmatically but its printed text {:?} fails: {}", q.describe(), text, e));
            }
            Run::Panic(p) => {
                self.q_violation("panic", format!("form:{}", kinds), format!("{} printed as {:?}: {}", q.describe(), text, p));
            }
        }
    }

    fn limit_law(&mut self, q: &Q, unlimited: &[Item], b: isize, e: isize, r: Run, stats: &mut BTreeMap<&'static str, usize>) {
        let sign = |x: isize| if x < 0 { "neg" } else if x == 0 { "zero" } else { "pos" };
        let key = format!("limit:{}:{}:{}", q.rt.name(), sign(b), sign(e));
        match r {
            Run::Rows(rows) => {
                *stats.entry("c08.limit_evaluated").or_insert(0) += 1;
                let got = last_col(&rows);
                let exp = slice_limit(unlimited, b, e);
                if got != exp {
                    self.q_violation("mismatch", key, format!("{}: unlimited {:?}, LIMIT {} {} must give {:?}, got {:?}", q.describe(), unlimited, b, e, exp, got));
                }
            }
            Run::Panic(p) => self.q_violation("panic", key, format!("{}: {}", q.describe(), p)),
            _ => {}
        }
    }

    /// `leading_has_duplicates`: the constraint written before the union answers with duplicates when it is
    /// taken alone (an annotation that names another one twice lists it twice among its targets, as built);
    /// the union filters those rows and cannot be held responsible for them
    fn union_law(&mut self, q: &Q, exp: &BTreeSet<Item>, domain: Option<&BTreeSet<Item>>, r: Run, key: String, leading_has_duplicates: bool, stats: &mut BTreeMap<&'static str, usize>) {
        match r {
            Run::Rows(rows) => {
                *stats.entry("c08.union_evaluated").or_insert(0) += 1;
                let col = last_col(&rows);
                let mut s = to_set(&col);
                if s.len() != col.len() && !leading_has_duplicates {
                    self.q_violation("duplicate", key.clone(), format!("{} returns duplicates: {:?}", q.describe(), col));
                }
                if let Some(d) = domain {
                    s = s.intersection(d).cloned().collect();
                }
                if &s != exp {
                    let missing: Vec<&Item> = exp.difference(&s).collect();
                    let extra: Vec<&Item> = s.difference(exp).collect();
                    let class = if !missing.is_empty() && extra.is_empty() { "missing" } else if missing.is_empty() { "extra" } else { "mismatch" };
                    self.q_violation(class, key, format!("{} is not the union of its branches: missing {:?} extra {:?}", q.describe(), missing, extra));
                }
            }
            Run::Panic(p) => self.q_violation("panic", key, format!("{}: {}", q.describe(), p)),
            Run::NotImpl(_) => *stats.entry("c08.union_notimplemented").or_insert(0) += 1,
            Run::Err(_) => *stats.entry("c08.union_error").or_insert(0) += 1,
        }
    }

    fn check_subqueries(&mut self, pools: &Pools, rng: &mut Rng, evals: &mut usize, budget: usize, optional_ok: bool, stats: &mut BTreeMap<&'static str, usize>) {
        let store = self.store;
        let nops = related_operators().len();
        for _ in 0..6 {
            if self.q_full() || *evals > budget {
                return;
            }
            // outer
            let ort = *rng.pick(&RT::ALL);
            let mut ocs: Vec<QC> = Vec::new();
            if !pools.generic.is_empty() && rng.chance(3, 4) {
                ocs.push(rng.pick(&pools.generic).clone());
            }
            let inner = |rng: &mut Rng, var: &str, of: RT| -> (RT, QC) {
                let v = var.to_string();
                match of {
                    RT::Annotation => match rng.below(8) {
                        0 => (RT::Annotation, QC::AnnVar { var: v, meta: false, depth: 1 }),
                        1 => (RT::Annotation, QC::AnnVar { var: v, meta: true, depth: 1 }),
                        2 => (RT::Annotation, QC::AnnVar { var: v, meta: false, depth: 2 }),
                        3 => (RT::Data, QC::AnnVar { var: v, meta: false, depth: 1 }),
                        4 => (RT::Key, QC::AnnVar { var: v, meta: false, depth: 1 }),
                        5 => (RT::Text, QC::AnnVar { var: v, meta: false, depth: 1 }),
                        6 => (RT::Text, QC::Relation { var: v, op: rng.below(nops) }),
                        _ => (RT::Annotation, QC::Relation { var: v, op: rng.below(nops) }),
                    },
                    RT::Text => match rng.below(4) {
                        0 => (RT::Annotation, QC::TextVar { var: v }),
                        1 => (RT::Text, QC::Relation { var: v, op: rng.below(nops) }),
                        2 => (RT::Annotation, QC::Relation { var: v, op: rng.below(nops) }),
                        _ => (RT::Data, QC::TextVar { var: v }),
                    },
                    RT::Data => match rng.below(5) {
                        0 => (RT::Annotation, QC::DataVar { var: v, meta: false }),
                        1 => (RT::Key, QC::DataVar { var: v, meta: false }),
                        2 => (RT::DataSet, QC::DataVar { var: v, meta: false }),
                        3 => (RT::Resource, QC::DataVar { var: v, meta: rng.chance(1, 2) }),
                        _ => (RT::Text, QC::DataVar { var: v, meta: false }),
                    },
                    RT::Key => match rng.below(6) {
                        0 => (RT::Annotation, QC::KeyVar { var: v, meta: false }),
                        1 => (RT::Data, QC::KeyVar { var: v, meta: false }),
                        2 => (RT::DataSet, QC::KeyVar { var: v, meta: false }),
                        3 => (RT::Resource, QC::KeyVar { var: v, meta: rng.chance(1, 2) }),
                        4 => (RT::Annotation, QC::KeyValueVar { var: v, op: Oper::Not(Box::new(Oper::Null)), meta: false }),
                        _ => (RT::Text, QC::KeyVar { var: v, meta: false }),
                    },
                    RT::Resource => match rng.below(3) {
                        0 => (RT::Annotation, QC::ResVar { var: v, meta: false }),
                        1 => (RT::Annotation, QC::ResVar { var: v, meta: true }),
                        _ => (RT::Text, QC::ResVar { var: v, meta: false }),
                    },
                    RT::DataSet => match rng.below(3) {
                        0 => (RT::Annotation, QC::SetVar { var: v, meta: false }),
                        1 => (RT::Data, QC::SetVar { var: v, meta: false }),
                        _ => (RT::Key, QC::SetVar { var: v, meta: false }),
                    },
                }
            };
            let (irt, ivc) = inner(rng, "x", ort);
            let mut ics = vec![ivc];
            if !pools.generic.is_empty() && rng.chance(1, 2) {
                ics.push(rng.pick(&pools.generic).clone());
            }
            // listed finding (OPTIONAL sub-query ends the outer iteration at the first outer result without
            // inner results; an existing test pins that behaviour): OPTIONAL is only generated with the flag "optional"
            let mut iq = Q { rt: irt, name: Some("y".to_string()), optional: optional_ok && rng.chance(1, 4), cs: ics, sub: None };
            // second level
            if rng.chance(1, 3) {
                let (rt2, c2) = if rng.chance(1, 2) { inner(rng, "y", irt) } else { inner(rng, "x", ort) };
                iq.sub = Some(Box::new(Q { rt: rt2, name: Some("z".to_string()), optional: optional_ok && rng.chance(1, 4), cs: vec![c2], sub: None }));
            }
            let q = Q { rt: ort, name: Some("x".to_string()), optional: false, cs: ocs, sub: Some(Box::new(iq)) };
            let full = eval(store, &q, &Vec::new());
            *evals += 1;
            let kinds = q_kinds(&q);
            match full {
                Run::Panic(p) => {
                    self.q_violation("panic", format!("subquery:{}", kinds), format!("{}: {}", q.describe(), p));
                }
                Run::NotImpl(_) => *stats.entry("c08.subquery_notimplemented").or_insert(0) += 1,
                Run::Err(_) => *stats.entry("c08.subquery_error").or_insert(0) += 1,
                Run::Rows(rows) => {
                    let mut ctx: Ctx = Vec::new();
                    match nested(store, &q, &mut ctx, evals) {
                        Ok(exp) => {
                            *stats.entry("c08.subquery_evaluated").or_insert(0) += 1;
                            if exp.iter().any(|r| r.len() > 1) {
                                *stats.entry("c08.subquery_with_inner_rows").or_insert(0) += 1;
                            }
                            if exp != rows {
                                let es: BTreeSet<&Vec<Item>> = exp.iter().collect();
                                let gs: BTreeSet<&Vec<Item>> = rows.iter().collect();
                                let class = if es == gs { "order" } else if gs.is_subset(&es) { "missing" } else if es.is_subset(&gs) { "extra" } else { "mismatch" };
                                self.q_violation(class, format!("subquery:{}", kinds), format!("{}: nested iteration gives {:?}, the query gives {:?}", q.describe(), exp, rows));
                            } else if q.printable() {
                                let (text, r2) = eval_text(store, &q, &Vec::new());
                                *evals += 1;
                                self.form_law(&q, &rows, text, r2, stats);
                            }
                        }
                        Err(_) => *stats.entry("c08.subquery_inner_refused").or_insert(0) += 1,
                    }
                }
            }
        }
    }
}

/// the rows of a query with sub-queries, by nested iteration: evaluate the head alone, bind, recurse
fn nested(store: &AnnotationStore, q: &Q, ctx: &mut Ctx, evals: &mut usize) -> Result<Vec<Vec<Item>>, String> {
    let head = Q { rt: q.rt, name: q.name.clone(), optional: false, cs: q.cs.clone(), sub: None };
    *evals += 1;
    let rows = match eval(store, &head, ctx) {
        Run::Rows(r) => r,
        other => return Err(format!("{:?}", other)),
    };
    let Some(sub) = q.sub.as_ref() else { return Ok(rows) };
    let mut out = Vec::new();
    for row in rows {
        let item = row.last().cloned().unwrap_or(Item::None);
        ctx.push((q.name.clone().unwrap_or_default(), item.clone()));
        let inner = nested(store, sub, ctx, evals);
        ctx.pop();
        let inner = inner?;
        if inner.is_empty() {
            if sub.optional {
                out.push(vec![item.clone()]);
            }
        } else {
            for r in inner {
                let mut full = vec![item.clone()];
                full.extend(r);
                out.push(full);
            }
        }
    }
    Ok(out)
}

fn q_kinds(q: &Q) -> String {
    let mut s = format!("{}{}[{}]", if q.optional { "optional " } else { "" }, q.rt.name(), q.cs.iter().map(|c| c.kind()).collect::<Vec<_>>().join(">"));
    if let Some(sub) = q.sub.as_ref() {
        s += &format!("{{{}}}", q_kinds(sub));
    }
    s
}

fn permutations(items: &[usize], out: &mut Vec<Vec<usize>>) {
    fn rec(cur: &mut Vec<usize>, rest: &mut Vec<usize>, out: &mut Vec<Vec<usize>>) {
        if rest.is_empty() {
            out.push(cur.clone());
            return;
        }
        for i in 0..rest.len() {
            let x = rest.remove(i);
            cur.push(x);
            rec(cur, rest, out);
            cur.pop();
            rest.insert(i, x);
        }
    }
    rec(&mut Vec::new(), &mut items.to_vec(), out);
}

// ------------------------------------------------------------------------------------- mutation routes

use crate::exec::ExecResult;
use crate::ops::{Cur, DataSpec, Op, Ref, Sel, SetRef};

fn q_str_ok(s: &str) -> bool {
    !s.is_empty() && !s.contains('"') && !s.contains('\\') && !s.contains(';') && !s.contains('\n') && !s.contains('|') && s.trim() == s
}

fn cur_text(c: &Cur) -> String {
    match c {
        Cur::B(x) => format!("{}", x),
        Cur::E(x) => {
            if *x == 0 {
                "-0".to_string()
            } else {
                format!("{}", x)
            }
        }
    }
}

fn res_id(m: &Model, r: &Ref) -> Option<String> {
    let t = m.res_target(r);
    t.uid.map(|u| m.resources[u].id.clone())
}

fn ann_id(m: &Model, r: &Ref) -> Option<String> {
    let t = m.ann_target(r);
    t.uid.map(|u| ann_ref(m, u))
}

fn set_id(m: &Model, r: &Ref) -> Option<String> {
    let t = m.set_target(r);
    t.uid.map(|u| m.datasets[u].id.clone())
}

/// the sub-query that selects one target, and the TARGET assignment that uses it
fn leaf_query(m: &Model, s: &Sel, var: &str) -> Option<(String, String)> {
    match s {
        Sel::Resource { r } => {
            let id = res_id(m, r)?;
            q_str_ok(&id).then(|| (format!("SELECT RESOURCE ?{} WHERE ID \"{}\";", var, id), format!("TARGET ?{};", var)))
        }
        Sel::Text { r, b, e } => {
            let id = res_id(m, r)?;
            if !q_str_ok(&id) {
                return None;
            }
            // every second time (decided by the offsets, so that it replays): select an enclosing part of
            // the text in the sub-query and give the rest as an OFFSET on the TARGET, relative to that part
            let uid = m.res_target(r).uid?;
            let len = m.resources[uid].text.len();
            if let (Some(ab), Some(ae)) = (b.resolve(len), e.resolve(len)) {
                if ab <= ae && (ab + ae) % 2 == 1 {
                    let ob = ab / 2;
                    let oe = ae + (len - ae) / 2;
                    let (rb, re) = if ab % 3 == 0 {
                        (format!("{}", ab - ob), format!("{}", ae - ob))
                    } else {
                        // end-aligned relative to the enclosing part
                        (format!("{}", ab - ob), if oe == ae { "-0".to_string() } else { format!("-{}", oe - ae) })
                    };
                    return Some((
                        format!("SELECT TEXT ?{} WHERE RESOURCE \"{}\" OFFSET {} {};", var, id, ob, oe),
                        format!("TARGET ?{} OFFSET {} {};", var, rb, re),
                    ));
                }
            }
            Some((format!("SELECT TEXT ?{} WHERE RESOURCE \"{}\" OFFSET {} {};", var, id, cur_text(b), cur_text(e)), format!("TARGET ?{};", var)))
        }
        Sel::DataSet { s } => {
            let id = set_id(m, s)?;
            q_str_ok(&id).then(|| (format!("SELECT DATASET ?{} WHERE ID \"{}\";", var, id), format!("TARGET ?{};", var)))
        }
        Sel::Annotation { a, offset } => {
            let id = ann_id(m, a)?;
            if !q_str_ok(&id) {
                return None;
            }
            let target = match offset {
                None => format!("TARGET ?{};", var),
                Some((b, e)) => format!("TARGET ?{} OFFSET {} {};", var, cur_text(b), cur_text(e)),
            };
            Some((format!("SELECT ANNOTATION ?{} WHERE ID \"{}\";", var, id), target))
        }
        _ => None,
    }
}

fn value_text(v: &Val) -> Option<String> {
    match v {
        Val::Null => Some(String::new()),
        Val::Bool(b) => Some(format!(" {}", b)),
        Val::Int(i) => Some(format!(" {}", i)),
        Val::Float(f) if f.is_finite() => {
            // plain decimal notation with a decimal point (STAMQL has no exponent syntax)
            let t = format!("{}", f);
            Some(if t.contains('.') { format!(" {}", t) } else { format!(" {}.0", t) })
        }
        Val::Str(s) if q_str_ok(s) => Some(format!(" \"{}\"", s)),
        _ => None,
    }
}

/// the STAMQL text of an ADD query equivalent to this annotate request, if it has one
pub fn add_query_text(m: &Model, id: &Option<String>, target: &Sel, data: &[DataSpec]) -> Option<String> {
    let (leaves, kind): (Vec<&Sel>, Option<&str>) = match target {
        Sel::Multi(v) => (v.iter().collect(), Some("MULTI ;")),
        Sel::Composite(v) => (v.iter().collect(), Some("COMPOSITE ;")),
        Sel::Directional(v) => (v.iter().collect(), Some("DIRECTIONAL ;")),
        Sel::Missing => return None,
        s => (vec![s], None),
    };
    if leaves.is_empty() || leaves.len() > 4 {
        return None;
    }
    let mut assignments = String::new();
    if let Some(id) = id {
        if !q_str_ok(id) {
            return None;
        }
        assignments += &format!(" ID \"{}\";", id);
    }
    let mut scratch = m.clone();
    let mut fx = crate::model::Effects::default();
    for spec in data {
        match spec {
            DataSpec::New { set, key, value, id: None } => {
                let set = match set {
                    SetRef::Existing(r) => set_id(&scratch, r)?,
                    SetRef::Literal(s) => s.clone(),
                    SetRef::Unnamed => crate::ops::DEFAULT_SET.to_string(),
                };
                if !q_str_ok(&set) || !q_str_ok(key) {
                    return None;
                }
                assignments += &format!(" DATA \"{}\" \"{}\"{};", set, key, value_text(value)?);
                let _ = scratch.apply_dataspec(spec, &mut fx);
            }
            _ => return None,
        }
    }
    let mut subs: Vec<String> = Vec::new();
    for (i, leaf) in leaves.iter().enumerate() {
        let (sub, t) = leaf_query(m, leaf, &format!("t{}", i))?;
        assignments += " ";
        assignments += &t;
        subs.push(sub);
    }
    if let Some(k) = kind {
        assignments += " ";
        assignments += k;
    }
    // nest the target queries: one row with all targets
    let mut nested = String::new();
    for s in subs.iter().rev() {
        nested = if nested.is_empty() { format!("{{ {} }}", s) } else { format!("{{ {} {} }}", s, nested) };
    }
    Some(format!("ADD ANNOTATION ?new WITH{} {}", assignments, nested))
}

/// Executes the request through `query_mut` when it has an equivalent ADD / DELETE query.
/// None = no such query (the caller uses the direct API).
pub fn exec_via_query(store: &mut AnnotationStore, m: &Model, op: &Op) -> Option<(String, ExecResult)> {
    match op {
        Op::Annotate { id, target, data } => {
            let text = add_query_text(m, id, target, data)?;
            let t2 = text.clone();
            let r = catch(move || -> Result<Option<usize>, String> {
                let (query, rest) = Query::parse(t2.as_str()).map_err(|e| format!("parse: {}", e))?;
                if !rest.trim().is_empty() {
                    return Err(format!("parse left a remainder: {:?}", rest));
                }
                let _ = stam::verif_hooks::take_query_errors();
                let iter = store.query_mut(query).map_err(|e| format!("{}", e))?;
                let mut handle = None;
                let mut n = 0;
                for row in iter {
                    n += 1;
                    if let Some(Item::Ann(h)) = row.iter().map(item_of).last() {
                        handle = Some(h);
                    }
                }
                if let Some(e) = stam::verif_hooks::take_query_errors().first() {
                    return Err(format!("query error: {}", e));
                }
                if n != 1 {
                    return Err(format!("the ADD query returned {} rows instead of 1", n));
                }
                Ok(handle)
            });
            Some((
                text,
                match r {
                    Ok(Ok(h)) => ExecResult::Ok(h),
                    Ok(Err(e)) => ExecResult::Err(e),
                    Err(p) => ExecResult::Panic(p),
                },
            ))
        }
        Op::RemoveAnnotationsOn { r } => {
            let id = res_id(m, r)?;
            if !q_str_ok(&id) {
                return None;
            }
            let text = format!("DELETE ANNOTATION ?x {{ SELECT ANNOTATION ?x WHERE RESOURCE \"{}\"; }}", id);
            let t2 = text.clone();
            let r = catch(move || -> Result<(), String> {
                let _ = stam::verif_hooks::take_query_errors();
                let (query, rest) = Query::parse(t2.as_str()).map_err(|e| format!("parse: {}", e))?;
                if !rest.trim().is_empty() {
                    return Err(format!("parse left a remainder: {:?}", rest));
                }
                let _n = store.query_mut(query).map_err(|e| format!("{}", e))?.count();
                if let Some(e) = stam::verif_hooks::take_query_errors().first() {
                    return Err(format!("query error: {}", e));
                }
                Ok(())
            });
            Some((
                text,
                match r {
                    Ok(Ok(())) => ExecResult::Ok(None),
                    Ok(Err(e)) => ExecResult::Err(e),
                    Err(p) => ExecResult::Panic(p),
                },
            ))
        }
        Op::RemoveAnnotation { a } | Op::RemoveResource { r: a } | Op::RemoveDataset { s: a } => {
            let (ty, id, label) = match op {
                Op::RemoveAnnotation { .. } => (Type::Annotation, ann_id(m, a)?, "ANNOTATION"),
                Op::RemoveResource { .. } => (Type::TextResource, res_id(m, a)?, "RESOURCE"),
                _ => (Type::AnnotationDataSet, set_id(m, a)?, "DATASET"),
            };
            let text = format!("DELETE {} ?x {{ SELECT {} ?x WHERE ID \"{}\"; }}", label, label, id);
            let id2 = id.clone();
            let r = catch(move || -> Result<(), String> {
                let _ = stam::verif_hooks::take_query_errors();
                let query = Query::new(QueryType::Delete, Some(ty), Some("x")).with_subquery(Query::new(QueryType::Select, Some(ty), Some("x")).with_constraint(Constraint::Id(id2.as_str())));
                // the borrow of the id ends with the query: evaluate eagerly
                let n = store.query_mut(query).map_err(|e| format!("{}", e))?.count();
                let _ = n;
                if let Some(e) = stam::verif_hooks::take_query_errors().first() {
                    return Err(format!("query error: {}", e));
                }
                Ok(())
            });
            Some((
                text,
                match r {
                    Ok(Ok(())) => ExecResult::Ok(None),
                    Ok(Err(e)) => ExecResult::Err(e),
                    Err(p) => ExecResult::Panic(p),
                },
            ))
        }
        _ => None,
    }
}
