//! C18: text validation accepts unchanged text and flags changed text.
//!
//! The "detecting half" needs a text that changes *underneath* a saved store: a stored-bytes
//! fault on a stand-off file between save and load, which is what SimFs is for. After a seeded
//! history with protect_text steps, the store is saved as JSON with every (non-empty) resource
//! kept as stand-off .txt; then, for every position of every text, the file is edited
//! (substitution, insertion, deletion) and the store is loaded again.

use crate::exec::*;
use crate::model::*;
use crate::obs::Violation;
use crate::ops::{Format, Op};
use crate::rng::Rng;
use crate::world::{RunStats, World};
use stam::*;

fn validation_state(m: &Model, a: Uid) -> (Option<String>, Option<String>) {
    // (protected checksum, protected text) of an annotation, if any
    let mut checksum = None;
    let mut text = None;
    if let Some(vs) = m.find_dataset_by_id(TEXTVALIDATION_SET) {
        for (s, d) in m.annotations[a].data.iter() {
            if *s == vs {
                let set = &m.datasets[vs];
                let item = &set.data[*d];
                if let crate::ops::Val::Str(v) = &item.value {
                    match set.keys[item.key].id.as_str() {
                        "checksum" => {
                            if checksum.is_none() {
                                checksum = Some(v.clone())
                            }
                        }
                        "text" => {
                            if text.is_none() {
                                text = Some(v.clone())
                            }
                        }
                        _ => {}
                    }
                }
            }
        }
    }
    (checksum, text)
}

/// expected result of `annotation.validate_text()` given the joined text the annotation selects now
fn expected_validity(m: &Model, a: Uid, joined_now: &str) -> Option<bool> {
    let (checksum, text) = validation_state(m, a);
    let mut found = false;
    if let Some(c) = checksum {
        found = true;
        let now = if joined_now.is_empty() { None } else { Some(sha1_hex(joined_now)) };
        if now.as_deref() != Some(c.as_str()) {
            return Some(false);
        }
    }
    if let Some(t) = text {
        found = true;
        if t != joined_now {
            return Some(false);
        }
    }
    if found {
        Some(true)
    } else {
        None
    }
}

fn joined_text(m: &Model, a: Uid) -> String {
    m.ann_text_targets(a).iter().map(|t| m.text_of(t)).collect()
}

/// Re-resolves the offsets of annotation `a` as they are written to JSON (own alignment mode,
/// relative to the resource or to the parent annotation's selection) against edited texts.
/// None = some offset no longer fits (loading may legitimately fail).
fn reresolve(m: &Model, a: Uid, newlen: &dyn Fn(Uid) -> usize, memo: &mut Vec<Option<Option<Vec<(Uid, usize, usize)>>>>) -> Option<Vec<(Uid, usize, usize)>> {
    if let Some(r) = &memo[a] {
        return r.clone();
    }
    let ann = &m.annotations[a];
    let mut out: Vec<(Uid, usize, usize)> = Vec::new();
    let mut ok = true;
    for leaf in ann.target.leaves() {
        match leaf {
            MSel::Text(t) => {
                let oldlen = m.resources[t.res].text.len();
                let (cb, ce) = t.mode.express(t.b, t.e, oldlen);
                let nl = newlen(t.res);
                match (cb.resolve(nl), ce.resolve(nl)) {
                    (Some(b), Some(e)) if b <= e => out.push((t.res, b, e)),
                    _ => ok = false,
                }
            }
            MSel::Ann { a: parent, text: Some(t) } => {
                let Some(p) = m.single_text(*parent) else {
                    ok = false;
                    continue;
                };
                let (cb, ce) = t.mode.express(t.b - p.b, t.e - p.b, p.e - p.b);
                // the parent's own selection in the edited text
                match reresolve(m, *parent, newlen, memo) {
                    Some(ps) if ps.len() == 1 => {
                        let (pr, pb, pe) = ps[0];
                        let plen = pe - pb;
                        match (cb.resolve(plen), ce.resolve(plen)) {
                            (Some(b), Some(e)) if b <= e => out.push((pr, pb + b, pb + e)),
                            _ => ok = false,
                        }
                    }
                    _ => ok = false,
                }
            }
            _ => {}
        }
    }
    let result = if ok {
        if matches!(ann.target, MSel::Multi(_) | MSel::Composite(_)) {
            out.sort_by_key(|(r, b, e)| (m.resources[*r].handle, *b, *e));
        }
        Some(out)
    } else {
        None
    };
    memo[a] = Some(result.clone());
    result
}

pub fn validation_phase(world: &mut World, stats: &mut RunStats, stepno: usize) -> Vec<Violation> {
    let mut out: Vec<Violation> = Vec::new();
    let m = world.model.clone();
    let live: Vec<Uid> = m.live_annotations().map(|(a, _)| a).collect();
    // (1) right now: nothing changed, so nothing may be reported invalid, and everything that was
    // protected and selects text must be reported valid
    let check_unchanged = |store: &AnnotationStore, phase: &str, out: &mut Vec<Violation>| {
        for a in live.iter() {
            let ann = &m.annotations[*a];
            let joined = joined_text(&m, *a);
            let exp = expected_validity(&m, *a, &joined);
            let Some(item) = store.annotation(AnnotationHandle::new(ann.handle)) else { continue };
            match catch(|| item.validate_text()) {
                Ok(got) => {
                    if got != exp {
                        out.push(Violation::new(
                            "C18",
                            "mismatch",
                            format!("validate_text.{}", phase),
                            format!("step {}: annotation {} (text {:?}): expected {:?} got {:?}", stepno, ann.handle, joined, exp, got),
                        ));
                    }
                }
                Err(p) => out.push(Violation::new("C18", "panic", format!("validate_text.{}", phase), format!("step {}: {}", stepno, normalise_panic(&p)))),
            }
        }
        // the store-wide summary agrees
        if let Ok(r) = catch(|| store.validate_text(true)) {
            let exp_invalid = live.iter().filter(|a| expected_validity(&m, **a, &joined_text(&m, **a)) == Some(false)).count();
            if r.invalid() != exp_invalid {
                out.push(Violation::new(
                    "C18",
                    "mismatch",
                    format!("store.validate_text.{}", phase),
                    format!("step {}: {} invalid reported, expected {}", stepno, r.invalid(), exp_invalid),
                ));
            }
        }
    };
    check_unchanged(&world.store, "after_protect", &mut out);
    if !out.is_empty() {
        return out;
    }
    // (1b) in one run out of four the save and reload goes through STAM CSV instead (the validation data travels as
    // ordinary data there, with its value written as text): still valid, and nothing else is decided on this route
    if (stepno + live.len()) % 4 == 0 {
        let v = world.step(&Op::Restart { format: Format::Csv }, stats, stepno);
        if !v.is_empty() {
            // what else the CSV round trip broke is C15's business; whether validation still answers is decided here
            stats.probe("c18_csv_roundtrip_with_foreign_violation");
        }
        stats.probe("c18_csv_route");
        let m2 = world.model.clone();
        for (a, ann) in m2.live_annotations() {
            let joined = joined_text(&m2, a);
            let exp = expected_validity(&m2, a, &joined);
            let Some(item) = world.store.annotation(AnnotationHandle::new(ann.handle)) else { continue };
            match catch(|| item.validate_text()) {
                Ok(got) => {
                    if got != exp {
                        out.push(Violation::new(
                            "C18",
                            "mismatch",
                            "validate_text.after_csv_reload",
                            format!("step {}: annotation {} (text {:?}): expected {:?} got {:?}", stepno, ann.handle, joined, exp, got),
                        ));
                    }
                }
                Err(p) => out.push(Violation::new("C18", "panic", "validate_text.after_csv_reload", format!("step {}: {}", stepno, normalise_panic(&p)))),
            }
        }
        return out;
    }
    // (2) save with stand-off .txt resources and reload: still valid
    world.fs.clear();
    world.restart_count += 1;
    let (res, v) = crate::restart_files::restart_json_include_opts(world, stats, false);
    if !matches!(res, ExecResult::Ok(_)) || !v.is_empty() {
        // a broken round trip is C05's business; nothing more can be decided here
        stats.probe("c18_roundtrip_failed_foreign");
        return out;
    }
    let _ = Format::JsonInclude;
    let m = world.model.clone(); // handles adopted from the reloaded store
    let live: Vec<Uid> = m.live_annotations().map(|(a, _)| a).collect();
    let check_unchanged2 = |store: &AnnotationStore, out: &mut Vec<Violation>| {
        for a in live.iter() {
            let ann = &m.annotations[*a];
            let joined = joined_text(&m, *a);
            let exp = expected_validity(&m, *a, &joined);
            let Some(item) = store.annotation(AnnotationHandle::new(ann.handle)) else { continue };
            if let Ok(got) = catch(|| item.validate_text()) {
                if got != exp {
                    out.push(Violation::new(
                        "C18",
                        "mismatch",
                        "validate_text.after_reload",
                        format!("step {}: annotation {} (text {:?}): expected {:?} got {:?}", stepno, ann.handle, joined, exp, got),
                    ));
                }
            }
        }
    };
    check_unchanged2(&world.store, &mut out);
    if !out.is_empty() {
        return out;
    }
    // (3) the fault: edit a stand-off text and load again, for every position
    let main = world.fs.list().into_iter().find(|k| k.ends_with("store.store.stam.json"));
    let Some(main) = main else { return out };
    let files = world.fs.snapshot();
    let mut rng = Rng::new(crate::rng::label_hash("c18-edits") ^ (stepno as u64) ^ (m.fingerprint()));
    for (ru, r) in m.resources.iter().enumerate().filter(|(_, r)| r.live && !r.text.is_empty()) {
        let path = format!("/sim/inc/{}.txt", r.id.chars().map(|c| if c.is_ascii_alphanumeric() || c == '-' || c == '_' { c } else { '_' }).collect::<String>());
        if !files.contains_key(&path) {
            continue;
        }
        let len = r.text.len();
        for p in 0..=len {
            for kind in 0..3 {
                let mut t: Vec<char> = r.text.clone();
                let name;
                match kind {
                    0 => {
                        if p >= len {
                            continue;
                        }
                        t[p] = if t[p] == '#' { 'Z' } else { '#' };
                        name = "text_edit_substitute";
                    }
                    1 => {
                        let k = rng.range(1, 3);
                        for i in 0..k {
                            t.insert(p + i, if i % 2 == 0 { '@' } else { '%' });
                        }
                        name = "text_edit_insert";
                    }
                    _ => {
                        let k = rng.range(1, 3);
                        if p + k > len {
                            continue;
                        }
                        t.drain(p..p + k);
                        name = "text_edit_delete";
                    }
                }
                *stats.faults_fired.entry(name).or_insert(0) += 1;
                let newtext: String = t.iter().collect();
                world.fs.put(&path, newtext.as_bytes());
                // model: re-resolve every annotation's offsets against the edited text
                let tl = t.len();
                let newlen = |res: Uid| if res == ru { tl } else { m.resources[res].text.len() };
                let mut memo: Vec<Option<Option<Vec<(Uid, usize, usize)>>>> = vec![None; m.annotations.len()];
                let mut all_fit = true;
                let mut expected: Vec<(Uid, Option<bool>, String)> = Vec::new();
                for a in live.iter() {
                    match reresolve(&m, *a, &newlen, &mut memo) {
                        None => {
                            all_fit = false;
                        }
                        Some(sels) => {
                            let joined: String = sels
                                .iter()
                                .map(|(res, b, e)| if *res == ru { t[*b..*e].iter().collect::<String>() } else { m.resources[*res].text[*b..*e].iter().collect::<String>() })
                                .collect();
                            expected.push((*a, expected_validity(&m, *a, &joined), joined));
                        }
                    }
                }
                let cfg = world.cfg.config().with_dataformat(world.store.config().dataformat());
                let loaded = catch(|| AnnotationStore::from_file(&main, cfg));
                match loaded {
                    Err(p) => {
                        out.push(Violation::new("C18", "panic", "reload_after_text_edit", format!("step {}: {} at {} of {}: {}", stepno, name, p, r.id, normalise_panic(&p))));
                    }
                    Ok(Err(_e)) => {
                        if all_fit {
                            out.push(Violation::new(
                                "C18",
                                "outcome",
                                "reload_after_text_edit",
                                format!("step {}: {} at {} of {}: every offset still fits the edited text but loading failed: {}", stepno, name, p, r.id, _e),
                            ));
                        } else {
                            stats.probe("c18_load_refused_offset_no_longer_fits");
                        }
                    }
                    Ok(Ok(store)) => {
                        if !all_fit {
                            // some offset no longer fits, yet the store loaded: nothing is asserted
                            stats.probe("c18_loaded_although_offset_no_longer_fits");
                        } else {
                            stats.probe("c18_edit_evaluated");
                            let anns: Vec<usize> = store.annotations().map(|x| x.handle().as_usize()).collect();
                            for (a, exp, joined) in expected.iter() {
                                let h = m.annotations[*a].handle;
                                if !anns.contains(&h) {
                                    continue;
                                }
                                let item = store.annotation(AnnotationHandle::new(h)).unwrap();
                                match catch(|| item.validate_text()) {
                                    Ok(got) => {
                                        if got != *exp {
                                            let class = match (exp, got) {
                                                (Some(false), Some(true)) => "missing",
                                                (Some(true), Some(false)) => "extra",
                                                _ => "mismatch",
                                            };
                                            out.push(Violation::new(
                                                "C18",
                                                class,
                                                format!("validate_text.after_{}", name),
                                                format!(
                                                    "step {}: {} at {} of {}: annotation {} now selects {:?} (protected: {:?}): expected {:?} got {:?}",
                                                    stepno,
                                                    name,
                                                    p,
                                                    r.id,
                                                    h,
                                                    joined,
                                                    joined_text(&m, *a),
                                                    exp,
                                                    got
                                                ),
                                            ));
                                        } else if *exp == Some(false) {
                                            stats.probe("c18_invalid_detected");
                                        }
                                    }
                                    Err(pn) => out.push(Violation::new("C18", "panic", format!("validate_text.after_{}", name), format!("step {}: {}", stepno, normalise_panic(&pn)))),
                                }
                                if out.len() >= 4 {
                                    break;
                                }
                            }
                        }
                    }
                }
                // restore the file
                world.fs.put(&path, files.get(&path).unwrap());
                if !out.is_empty() {
                    return out;
                }
            }
        }
    }
    out
}
