#!/bin/bash
# Builds (or refreshes) a scratch pair under /tmp/evalpair: a worktree of /repo's HEAD and a copy of the
# committed harness (git HEAD of /verif) that depends on that worktree instead of on /repo. Seeded changes can
# then be evaluated without touching /repo (useful while a long run is using it):
#   tools/scratch_pair.sh setup
#   tools/scratch_pair.sh eval <patch.diff> <Cxx> [Cxx...]     # lock-step and C19 checks (not C20's Miri engine)
#   tools/scratch_pair.sh regress                               # every stored seeded change against its own property's quick check -> seeded/REGRESSION.txt
#   tools/scratch_pair.sh remove
set -u
PAIR=/tmp/evalpair
case "${1:-}" in
  setup)
    if [ -d $PAIR/wt ]; then git -C /repo worktree remove --force $PAIR/wt; fi
    rm -rf $PAIR/root $PAIR/stamsim.new; mkdir -p $PAIR/root
    git -C /repo worktree add -q --detach $PAIR/wt HEAD
    git -C /verif archive HEAD stamsim known_findings.json findings | tar -x -C $PAIR/root
    mkdir -p $PAIR/stamsim; rsync -a --delete --exclude target $PAIR/root/stamsim/ $PAIR/stamsim/; rm -rf $PAIR/root/stamsim
    sed -i 's#path = "/repo"#path = "/tmp/evalpair/wt"#' $PAIR/stamsim/Cargo.toml
    touch $PAIR/stamsim/src/*.rs
    ( cd $PAIR/stamsim && CARGO_NET_OFFLINE=true cargo build --release --offline 2>&1 | tail -1 )
    ;;
  eval)
    P="$2"; shift 2
    cd $PAIR/wt && git checkout -q -- . && git apply "$P" || { echo "PATCH DOES NOT APPLY"; exit 3; }
    ( cd $PAIR/stamsim && CARGO_NET_OFFLINE=true cargo build --release --offline >/dev/null 2>&1 ) || { echo "BUILD FAILED"; git -C $PAIR/wt checkout -q -- .; exit 3; }
    for prop in "$@"; do
      out=$(cd $PAIR/stamsim && VERIF_ROOT=$PAIR/root VERIF_MAX_REPORT=2 VERIF_MINIMISE_SECS=5 ./target/release/stamsim check $prop quick 2>/dev/null); rc=$?
      echo "check $prop quick: exit=$rc  $(echo "$out" | grep -m2 'signature:' | sed 's/.*signature: //' | tr '\n' ' ')"
    done
    git -C $PAIR/wt checkout -q -- .
    ;;
  regress)
    OUT=/verif/seeded/REGRESSION.txt; : > $OUT.tmp
    for d in /verif/seeded/*/; do
      name=$(basename $d); [ -f $d/patch.diff ] || continue; prop=${name%%-*}
      if grep -q '"status": "obsolete' $d/meta.json 2>/dev/null; then echo "$name $prop OBSOLETE (neutralised by a later library repair; see meta.json)" >> $OUT.tmp; continue; fi
      cd $PAIR/wt && git checkout -q -- . && if ! git apply $d/patch.diff 2>/dev/null; then echo "$name $prop PATCH-DOES-NOT-APPLY" >> $OUT.tmp; continue; fi
      if ! ( cd $PAIR/stamsim && CARGO_NET_OFFLINE=true cargo build --release --offline >/dev/null 2>&1 ); then echo "$name $prop BUILD-FAILED" >> $OUT.tmp; git -C $PAIR/wt checkout -q -- .; continue; fi
      out=$(cd $PAIR/stamsim && VERIF_ROOT=$PAIR/root VERIF_MAX_REPORT=1 VERIF_MINIMISE_SECS=3 ./target/release/stamsim check $prop quick 2>/dev/null); rc=$?
      sig=$(echo "$out" | grep -m1 'signature:' | sed 's/.*signature: //')
      git -C $PAIR/wt checkout -q -- .
      echo "$name $prop exit=$rc $sig" >> $OUT.tmp
    done
    ( cd $PAIR/stamsim && CARGO_NET_OFFLINE=true cargo build --release --offline >/dev/null 2>&1 )
    mv $OUT.tmp $OUT; echo REGRESSION-DONE
    ;;
  remove)
    git -C /repo worktree remove --force $PAIR/wt 2>/dev/null; git -C /repo worktree prune; rm -rf $PAIR
    ;;
  *) echo "usage: scratch_pair.sh setup | eval <patch> <Cxx>... | remove"; exit 2;;
esac
