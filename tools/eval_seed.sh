#!/bin/bash
# usage: eval_seed.sh <seed-dir> <n> <property> <name> [checks...]
# 1. confirms in a scratch worktree that demo<n>.rs passes without patch<n>.diff and fails with it,
#    and that the existing test suite still passes with the patch;
# 2. applies the patch to /repo, runs the given checks (default: the property's quick check), undoes it;
# 3. stores everything under /verif/seeded/<name>/.
set -u
SD="$1"; N="$2"; PROP="$3"; NAME="$4"; shift 4
CHECKS="${*:-$PROP}"
OUT=/verif/seeded/$NAME
mkdir -p "$OUT"
cp "$SD/patch$N.diff" "$OUT/patch.diff"
cp "$SD/demo$N.rs" "$OUT/demo.rs"
cp "$SD/notes$N.md" "$OUT/notes.md" 2>/dev/null
WT=/tmp/wt-eval
if [ -z "${SKIP_CONFIRM:-}" ]; then
if [ ! -d $WT ]; then git -C /repo worktree add -q $WT HEAD; fi
git -C $WT checkout -q --detach $(git -C /repo rev-parse HEAD) 2>/dev/null
git -C $WT checkout -q -- . ; rm -f $WT/tests/zz_demo.rs
export CARGO_NET_OFFLINE=true
cp "$OUT/demo.rs" $WT/tests/zz_demo.rs
( cd $WT && cargo test --offline --test zz_demo 2>&1 | grep -E "^test result" ) > "$OUT/demo_without_patch.txt"
if ! git -C $WT apply "$OUT/patch.diff"; then echo "PATCH DOES NOT APPLY" | tee "$OUT/demo_with_patch.txt"; rm -f $WT/tests/zz_demo.rs; exit 3; fi
( cd $WT && cargo test --offline --test zz_demo 2>&1 | grep -E "^test result|error(\[|:)" | head -5 ) > "$OUT/demo_with_patch.txt"
rm -f $WT/tests/zz_demo.rs
( cd $WT && cargo test --offline --workspace --no-fail-fast 2>&1 | grep -E "^test result" ) > "$OUT/suite_with_patch.txt"
git -C $WT checkout -q -- .
echo "--- demo without patch: $(cat $OUT/demo_without_patch.txt | tr '\n' ' ')"
echo "--- demo with patch:    $(cat $OUT/demo_with_patch.txt | tr '\n' ' ')"
echo "--- suite with patch:   $(cat $OUT/suite_with_patch.txt | tr '\n' ' ')"
fi
# 2. run the checks against the patched /repo
if [ -n "$(git -C /repo status --short)" ]; then echo "/repo is not clean, refusing"; exit 3; fi
git -C /repo apply "$OUT/patch.diff" || exit 3
: > "$OUT/checks.txt"
for c in $CHECKS; do
  ( cd /verif && ./check $c quick ) > /tmp/eval_check_out.txt 2>&1
  rc=$?
  echo "check $c quick: exit=$rc  $(grep -c '^VIOLATION' /tmp/eval_check_out.txt) violation line(s)" | tee -a "$OUT/checks.txt"
  grep -A3 "^VIOLATION" /tmp/eval_check_out.txt | cut -c1-400 | head -12 | tee -a "$OUT/checks.txt"
done
git -C /repo checkout -- .
( cd /verif/stamsim && cargo build --release --offline >/dev/null 2>&1 )
