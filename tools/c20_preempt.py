#!/usr/bin/env python3
"""C20, second engine: reader scenarios under Miri's seeded preemptive scheduler.

  c20_preempt.py run <quick|thorough>     scenarios x Miri seeds; exit 0 held / 1 violation / 2 harness error
  c20_preempt.py replay <file>            re-run one (scenario, Miri seed); exit 1 if it diverges again

One Miri seed is one schedule: Miri's scheduler is deterministic for a given seed, binary and flags,
and may preempt at any basic block. Every (scenario, seed) runs in its own process (the built-in
-Zmiri-many-seeds mode scales badly); borrow tracking and validity checks are off because only the
schedule is of interest here. Nothing is passed through the shell environment except MIRIFLAGS.
"""
import json, os, re, subprocess, sys, time
from concurrent.futures import ThreadPoolExecutor

ROOT = os.environ.get("VERIF_ROOT", "/verif")
CRATE = os.path.join(ROOT, "stammiri")
FLAGS = "-Zmiri-preemption-rate=0.05 -Zmiri-ignore-leaks -Zmiri-disable-stacked-borrows -Zmiri-disable-validation -Zmiri-disable-alignment-check"
TIMEOUT = 900


def miri(verif_seed, scenario, miri_seed, heavy, extra=()):
    env = dict(os.environ)
    env["MIRIFLAGS"] = "-Zmiri-seed=%d %s" % (miri_seed, FLAGS)
    env["CARGO_NET_OFFLINE"] = "true"
    args = ["cargo", "+nightly", "miri", "run", "--offline", "--quiet", "--", str(verif_seed), str(scenario)]
    if heavy:
        args.append("heavy")
    args += list(extra)
    try:
        p = subprocess.run(args, cwd=CRATE, env=env, stdout=subprocess.PIPE, stderr=subprocess.PIPE, timeout=TIMEOUT, text=True)
        return p.returncode, p.stdout, p.stderr
    except subprocess.TimeoutExpired:
        return 124, "", "timeout after %d s" % TIMEOUT


def signature(stdout, stderr, rc):
    m = re.search(r"C20DIVERGENCE\|([a-z_.]+)\|", stdout)
    if m:
        return "C20|divergence|%s|preempt" % m.group(1)
    if rc == 124:
        return "C20|hang|reader|preempt"
    if "Undefined Behavior" in stderr or "data race" in stderr.lower():
        return "C20|undefined_behaviour|reader|preempt"
    if "panicked" in stderr:
        return "C20|panic|reader|preempt"
    return "C20|abort|reader|preempt"


def known_signatures():
    try:
        k = json.load(open(os.path.join(ROOT, "known_findings.json")))
        return {x["signature"]: x for x in k if x.get("status") == "known" and x.get("property") == "C20"}
    except Exception:
        return {}


def build_or_die(verif_seed):
    # compiles stam (from /repo's working tree) and the scenario binary for Miri; also a smoke run
    rc, out, err = miri(verif_seed, 0, 0, False, ["describe"])
    if rc != 0 or "threads=" not in out:
        print("HARNESS-ERROR: the Miri engine does not build or start")
        print((err or out)[-2000:])
        sys.exit(2)


def run(tier):
    verif_seed = int(os.environ.get("VERIF_SEED", "20260926"))
    if tier == "thorough":
        light, heavy, seeds = 40, 12, 48
    else:
        light, heavy, seeds = 5, 1, 24
    if os.environ.get("VERIF_PREEMPT_SCENARIOS"):
        light = int(os.environ["VERIF_PREEMPT_SCENARIOS"])
    if os.environ.get("VERIF_PREEMPT_SEEDS"):
        seeds = int(os.environ["VERIF_PREEMPT_SEEDS"])
    start = time.time()
    build_or_die(verif_seed)
    jobs = [(sc, ms, False) for sc in range(light) for ms in range(seeds)] + [(1000 + sc, ms, True) for sc in range(heavy) for ms in range(seeds)]
    workers = int(os.environ.get("VERIF_WORKERS", "16"))
    results = []
    with ThreadPoolExecutor(max_workers=workers) as ex:
        futs = {ex.submit(miri, verif_seed, sc, ms, hv): (sc, ms, hv) for (sc, ms, hv) in jobs}
        for f, key in futs.items():
            results.append((key, f.result()))
    known = known_signatures()
    failures = {}
    for (sc, ms, hv), (rc, out, err) in results:
        if rc == 0 and out.strip().endswith("ok"):
            continue
        sig = signature(out, err, rc)
        failures.setdefault(sig, []).append((sc, ms, hv, rc, out, err))
    new = 0
    os.makedirs(os.path.join(ROOT, "replays"), exist_ok=True)
    for sig, items in sorted(failures.items()):
        sc, ms, hv, rc, out, err = sorted(items, key=lambda x: (x[0], x[1]))[0]
        path = os.path.join(ROOT, "replays", "C20-preempt-%d-%d-%d.json" % (verif_seed, sc, ms))
        desc = miri(verif_seed, sc, 0, hv, ["describe"])[1].strip()
        json.dump({"property": "C20", "engine": "miri-preempt", "signature": sig, "verif_seed": verif_seed, "scenario": sc, "heavy": hv,
                   "miri_seed": ms, "miri_flags": FLAGS, "scenario_description": desc, "stdout": out[-3000:], "stderr": err[-3000:], "hits": len(items)}, open(path, "w"), indent=1)
        if sig in known:
            print("KNOWN-FINDING: property=C20 %s [%s] (%d executions; replay=%s)" % (known[sig].get("what", ""), sig, len(items), path))
        else:
            new += 1
            print("VIOLATION property=C20 replay=%s" % path)
            print("  signature: %s" % sig)
            print("  engine=miri-preempt scenario=%d miri_seed=%d (%d of %d executions diverged with this signature)" % (sc, ms, len(items), len(jobs)))
            for line in out.splitlines():
                if "C20DIVERGENCE" in line:
                    print("  " + line[:400])
                    break
    wall = time.time() - start
    # evidence: add this engine's figures to the file the shuttle engine has just written
    ev_path = os.path.join(ROOT, "evidence", "C20.json")
    try:
        ev = json.load(open(ev_path))
        ev["coverage"]["preemptive_engine"] = {
            "what": "the same kind of reader scenarios as real std threads inside Miri; one Miri seed = one schedule, preemption possible at every basic block (rate 0.05)",
            "scenarios": light + heavy, "scenarios_with_regex_json_query_calls": heavy, "schedules_per_scenario": seeds, "executions": len(jobs),
            "diverged": sum(len(v) for v in failures.values()), "wall_s": round(wall, 1), "executions_per_hour": round(len(jobs) / wall * 3600),
            "real": "all of stam, std threads, std locks and atomics as interpreted by Miri", "stub": "no files (inline stores only), no clock",
            "miri_flags": FLAGS,
        }
        ev["coverage"]["evaluations"] = ev["coverage"].get("evaluations", 0) + len(jobs)
        ev["wall_s"] = round(ev.get("wall_s", 0) + wall, 1)
        if new:
            ev["violations"] = ev.get("violations", 0) + new if isinstance(ev.get("violations"), int) else ev.get("violations")
        json.dump(ev, open(ev_path, "w"), indent=1)
    except Exception as e:
        print("HARNESS-ERROR: cannot update %s: %s" % (ev_path, e))
        sys.exit(2)
    print("preemptive engine: scenarios=%d schedules_each=%d executions=%d diverged=%d wall=%.1fs" % (light + heavy, seeds, len(jobs), sum(len(v) for v in failures.values()), wall))
    sys.exit(1 if new else 0)


def replay(path):
    r = json.load(open(path))
    global FLAGS
    FLAGS = r.get("miri_flags", FLAGS)
    build_or_die(r["verif_seed"])
    rc, out, err = miri(r["verif_seed"], r["scenario"], r["miri_seed"], r.get("heavy", False))
    if rc == 0 and out.strip().endswith("ok"):
        print("replay of %s: no violation (does not reproduce on this tree)" % path)
        sys.exit(0)
    sig = signature(out, err, rc)
    for line in out.splitlines():
        if "C20DIVERGENCE" in line:
            print(line[:600])
    if sig == r["signature"]:
        print("VIOLATION property=C20 replay=%s" % path)
        print("replay reproduced signature %s" % sig)
        sys.exit(1)
    print("HARNESS-ERROR: replay diverged: expected %s got %s" % (r["signature"], sig))
    sys.exit(2)


if __name__ == "__main__":
    if len(sys.argv) >= 3 and sys.argv[1] == "run":
        run(sys.argv[2])
    elif len(sys.argv) >= 3 and sys.argv[1] == "replay":
        replay(sys.argv[2])
    else:
        print(__doc__)
        sys.exit(2)
