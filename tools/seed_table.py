#!/usr/bin/env python3
"""Prints the table of seeded changes for DESIGN.md section 10 from seeded/*/meta.json and seeded/REGRESSION.txt."""
import json, os, glob, ast

def aslist(x):
    if isinstance(x, str):
        try:
            x = ast.literal_eval(x)
        except Exception:
            x = [x]
    return list(x or [])

reg = {}
p = '/verif/seeded/REGRESSION.txt'
if os.path.exists(p):
    for line in open(p):
        parts = line.strip().split(' ', 3)
        if len(parts) >= 3:
            reg[parts[0]] = (parts[2], parts[3] if len(parts) > 3 else '')
print("| change | property | needs, to manifest | caught at first evaluation by | missed at first evaluation by | strengthening | own quick check now |")
print("|--------|----------|--------------------|------------------------------|-------------------------------|---------------|---------------------|")
for d in sorted(glob.glob('/verif/seeded/*/')):
    name = os.path.basename(d.rstrip('/'))
    mp = d + 'meta.json'
    if not os.path.exists(mp):
        continue
    m = json.load(open(mp))
    prop = m.get('property', name.split('-')[0])
    needs = (m.get('needs_to_manifest') or m.get('needs') or m.get('what_it_needs') or '').replace('|', '\\|')
    caught = m.get('caught_by_at_evaluation') or m.get('caught_by_quick_checks') or m.get('caught_by') or []
    missed = m.get('missed_by_at_evaluation') or m.get('not_caught_by') or m.get('missed_by') or []
    caught, missed = aslist(caught), aslist(missed)
    st = m.get('strengthening', {})
    stw = (st.get('what', '') if isinstance(st, dict) else str(st)).replace('|', '\\|')
    r = reg.get(name, ('?', ''))
    now = ('VIOLATION `%s`' % r[1]) if r[0] == 'exit=1' else r[0]
    if str(m.get('status', '')).startswith('obsolete'):
        now = 'not applicable any more: ' + m['status']
    print("| %s | %s | %s | %s | %s | %s | %s |" % (name, prop, needs, ' '.join(caught) or '-', ' '.join(missed) or '-', stw or '-', now))
