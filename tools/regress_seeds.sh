#!/bin/bash
# Applies every stored seeded change to /repo in turn, runs the quick check of its property, undoes it.
# Writes /verif/seeded/REGRESSION.txt (one line per change). Needs a clean /repo.
cd /verif
OUT=/verif/seeded/REGRESSION.txt
: > $OUT.tmp
for d in seeded/*/; do
  name=$(basename $d)
  [ -f $d/patch.diff ] || continue
  prop=${name%%-*}
  if grep -q '"status": "obsolete' $d/meta.json 2>/dev/null; then echo "$name $prop OBSOLETE (neutralised by a later library repair; see meta.json)" >> $OUT.tmp; continue; fi
  if [ -n "$(git -C /repo status --short)" ]; then echo "/repo not clean"; exit 3; fi
  if ! git -C /repo apply /verif/$d/patch.diff 2>/dev/null; then echo "$name $prop PATCH-DOES-NOT-APPLY" >> $OUT.tmp; continue; fi
  VERIF_MAX_REPORT=1 VERIF_MINIMISE_SECS=3 ./check $prop quick > /tmp/regress_out.txt 2>&1; rc=$?
  sig=$(grep -m1 "signature:" /tmp/regress_out.txt | sed 's/.*signature: //')
  git -C /repo checkout -- .
  echo "$name $prop exit=$rc $sig" >> $OUT.tmp
done
( cd /verif/stamsim && cargo build --release --offline >/dev/null 2>&1 )
mv $OUT.tmp $OUT
echo REGRESSION-DONE
