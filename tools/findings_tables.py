#!/usr/bin/env python3
"""Rewrites the table of section 6.1 and the list of section 6.2 of DESIGN.md from known_findings.json."""
import json, re
k = json.load(open('/verif/known_findings.json'))
fixed = [e for e in k if e['status'] == 'fixed']
known = [e for e in k if e['status'] == 'known']
d = open('/verif/DESIGN.md').read()
# 6.1: heading count and table rows
d = re.sub(r"### 6\.1 Repaired \(`fix:` commits in /repo, \d+ of them\)", "### 6.1 Repaired (`fix:` commits in /repo, %d of them)" % len(fixed), d)
rows = ["| # | prop | commit | what failed on the unchanged tree |", "|---|------|--------|-----------------------------------|"]
for i, e in enumerate(fixed, 1):
    rows.append("| %d | %s | %s | %s |" % (i, e['property'], e['commit'], e['what'].replace('|', '\\|')))
m = re.search(r"\| # \| prop \| commit \| what failed on the unchanged tree \|\n(\|.*\n)+", d)
assert m, "6.1 table not found"
d = d[:m.start()] + "\n".join(rows) + "\n" + d[m.end():]
# 6.2: bullets up to the first blank line after the heading
m = re.search(r"### 6\.2 Listed \(not repaired\), with the reason\n\n((\* \*\*.*\n)+)", d)
assert m, "6.2 list not found"
bul = "".join("* **%s** `%s` — %s (replay: `%s`)\n" % (e['property'], e['signature'], e['what'], e.get('replay', '-')) for e in known)
d = d[:m.start(1)] + bul + d[m.end(1):]
open('/verif/DESIGN.md', 'w').write(d)
print("6.1: %d repaired, 6.2: %d listed" % (len(fixed), len(known)))
