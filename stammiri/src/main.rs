//! C20, second engine: the reader scenarios under Miri's seeded *preemptive* scheduler.
//!
//! The shuttle engine (stamsim c20) switches threads only at the hooked sites (serialisation mode,
//! changed flags, file calls). Here real std threads run inside Miri, whose scheduler - seeded by
//! `-Zmiri-seed` / `-Zmiri-many-seeds`, deterministic per seed - may preempt a thread at any basic
//! block, so shared interior-mutable state that has no hook (a cache, a lazily initialised field, an
//! atomic) is reached as well. One Miri seed = one schedule; a failure is replayed with the same
//! scenario and `-Zmiri-seed=<n>`. No files, no clock: the stores are inline.
//!
//! usage: stammiri <verif_seed> <scenario_index> [describe]

use rayon::prelude::*;
use stam::*;
use std::sync::Arc;

// ---- splitmix64 / xorshift: the same construction as stamsim's rng, kept local (no shared crate under Miri)
struct Rng(u64);
impl Rng {
    fn new(seed: u64) -> Self {
        let mut z = seed.wrapping_add(0x9E3779B97F4A7C15);
        z = (z ^ (z >> 30)).wrapping_mul(0xBF58476D1CE4E5B9);
        z = (z ^ (z >> 27)).wrapping_mul(0x94D049BB133111EB);
        Rng((z ^ (z >> 31)) | 1)
    }
    fn next(&mut self) -> u64 {
        let mut x = self.0;
        x ^= x << 13;
        x ^= x >> 7;
        x ^= x << 17;
        self.0 = x;
        x.wrapping_mul(0x2545F4914F6CDD1D)
    }
    fn below(&mut self, n: usize) -> usize {
        (self.next() % (n.max(1) as u64)) as usize
    }
    fn pick<'a, T>(&mut self, v: &'a [T]) -> &'a T {
        &v[self.below(v.len())]
    }
}

const ALPHABET: &[char] = &['a', 'b', 'c', ' ', ' ', 'é', 'ß', '€', '語', '😀', 'x', '.', 'A'];

#[derive(Clone, Debug)]
enum ROp {
    FindText(usize, String),
    FindRegex(usize, String),
    SplitText(usize, String),
    Conversions(usize),
    TextSelections(usize),
    CollectAnnotations,
    CollectData,
    FindData(String),
    Query(String),
    RelatedText(usize),
    StoreJson,
    ResourceJson(usize),
    DatasetJson(usize),
    Segmentation(usize),
    /// the library's `.parallel()` adaptor on rayon's real pool (2 or 3 workers): Miri schedules the workers too
    ParAnnotations(usize),
    ParTextSelections(usize, usize),
    ParData(usize),
    ParResourceJson(usize),
}

struct Scenario {
    texts: Vec<String>,
    /// (resource, begin, end, key, value)
    annotations: Vec<(usize, usize, usize, String, String)>,
    /// annotations on annotations: (target annotation index, key, value)
    higher: Vec<(usize, String, String)>,
    threads: Vec<Vec<ROp>>,
}

fn gen(verif_seed: u64, index: u64, heavy: bool) -> Scenario {
    let mut r = Rng::new(verif_seed ^ index.wrapping_mul(0xA24BAED4963EE407) ^ 0xC20);
    let nres = 1 + r.below(2);
    let mut texts = Vec::new();
    for _ in 0..nres {
        let len = 6 + r.below(18);
        texts.push((0..len).map(|_| *r.pick(ALPHABET)).collect::<String>());
    }
    let mut annotations = Vec::new();
    for _ in 0..(2 + r.below(6)) {
        let res = r.below(nres);
        let len = texts[res].chars().count();
        let b = r.below(len);
        let e = b + 1 + r.below((len - b).min(5));
        annotations.push((res, b, e.min(len), format!("k{}", r.below(3)), format!("v{}", r.below(3))));
    }
    let mut higher = Vec::new();
    for _ in 0..r.below(3) {
        higher.push((r.below(annotations.len()), format!("k{}", r.below(3)), format!("v{}", r.below(3))));
    }
    let needles = ["a", "b", " ", "é", "ab", "😀", "€", "x"];
    let nthreads = 2 + r.below(2);
    let mut threads = Vec::new();
    for _ in 0..nthreads {
        let mut ops = Vec::new();
        for _ in 0..(2 + r.below(3)) {
            let res = r.below(nres);
            // regular expressions, the STAMQL parser and JSON serialisation cost seconds per call under Miri:
            // they are drawn rarely, the cheap search / conversion / iteration calls make up most of a scenario
            let kind = if heavy && r.below(4) == 0 {
                *r.pick(&[2, 10, 12, 13, 14, 19])
            } else {
                *r.pick(&[0, 1, 3, 4, 5, 6, 7, 8, 9, 11, 15, 16, 17, 18])
            };
            ops.push(match kind {
                0 | 1 => ROp::FindText(res, r.pick(&needles).to_string()),
                2 => ROp::FindRegex(res, r.pick(&["[a-c]+", "ab?", "x+"]).to_string()),
                3 => ROp::SplitText(res, r.pick(&[" ", "a", "."]).to_string()),
                4 | 5 => ROp::Conversions(res),
                6 => ROp::TextSelections(res),
                7 => ROp::CollectAnnotations,
                8 => ROp::CollectData,
                9 => ROp::FindData(format!("k{}", r.below(3))),
                10 => ROp::Query(r.pick(&["SELECT ANNOTATION ?a WHERE DATA \"s\" \"k0\";", "SELECT TEXT ?t WHERE TEXT \"a\";", "SELECT DATA ?d;", "SELECT ANNOTATION ?a { SELECT ANNOTATION ?b WHERE RELATION ?a OVERLAPS; }"]).to_string()),
                11 => ROp::RelatedText(r.below(8)),
                12 => ROp::StoreJson,
                13 => ROp::ResourceJson(res),
                14 => ROp::DatasetJson(0),
                15 => ROp::Segmentation(res),
                16 => ROp::ParAnnotations(2 + r.below(2)),
                17 => ROp::ParTextSelections(res, 2 + r.below(2)),
                18 => ROp::ParData(2 + r.below(2)),
                _ => ROp::ParResourceJson(2),
            });
        }
        threads.push(ops);
    }
    Scenario { texts, annotations, higher, threads }
}

fn build(s: &Scenario) -> AnnotationStore {
    let mut store = AnnotationStore::new(Config::default().with_milestone_interval(3));
    for (i, t) in s.texts.iter().enumerate() {
        store.add_resource(TextResourceBuilder::new().with_id(format!("r{}", i)).with_text(t.clone())).expect("resource");
    }
    let mut handles = Vec::new();
    for (i, (res, b, e, k, v)) in s.annotations.iter().enumerate() {
        let h = store
            .annotate(
                AnnotationBuilder::new()
                    .with_id(format!("a{}", i))
                    .with_target(SelectorBuilder::textselector(format!("r{}", res), Offset::simple(*b, *e)))
                    .with_data("s", k.clone(), v.clone()),
            )
            .expect("annotation");
        handles.push(h);
    }
    for (i, (t, k, v)) in s.higher.iter().enumerate() {
        store
            .annotate(
                AnnotationBuilder::new()
                    .with_id(format!("h{}", i))
                    .with_target(SelectorBuilder::annotationselector(handles[*t], Some(Offset::whole())))
                    .with_data("s", k.clone(), v.clone()),
            )
            .expect("higher-order annotation");
    }
    store
}

fn run(store: &AnnotationStore, op: &ROp) -> String {
    let res = |i: usize| store.resource(format!("r{}", i).as_str());
    match op {
        ROp::FindText(r, n) => match res(*r) {
            Some(r) => r.find_text(n).map(|t| format!("{}-{};", t.begin(), t.end())).collect(),
            None => "none".into(),
        },
        ROp::FindRegex(r, re) => match res(*r) {
            Some(r) => {
                let exprs = [Regex::new(re).unwrap()];
                let out: String = match r.find_text_regex(&exprs, None, false) {
                    Ok(iter) => iter.map(|m| m.textselections().iter().map(|t| format!("{}-{};", t.begin(), t.end())).collect::<String>()).collect(),
                    Err(e) => format!("ERR {}", e),
                };
                out
            }
            None => "none".into(),
        },
        ROp::SplitText(r, d) => match res(*r) {
            Some(r) => r.split_text(d).map(|t| format!("{}-{};", t.begin(), t.end())).collect(),
            None => "none".into(),
        },
        ROp::Conversions(r) => match res(*r) {
            Some(r) => {
                let mut out = String::new();
                let len = r.textlen();
                for p in 0..=len {
                    match r.utf8byte(p) {
                        Ok(b) => out += &format!("{}>{}>{:?};", p, b, r.utf8byte_to_charpos(b).ok()),
                        Err(_) => out += "E;",
                    }
                }
                for b in 0..=r.text().len() + 1 {
                    out += &format!("{:?},", r.utf8byte_to_charpos(b).ok());
                }
                out
            }
            None => "none".into(),
        },
        ROp::TextSelections(r) => match res(*r) {
            Some(r) => r.textselections().map(|t| format!("{}-{}:{};", t.begin(), t.end(), t.annotations().count())).collect(),
            None => "none".into(),
        },
        ROp::CollectAnnotations => store.annotations().map(|a| format!("{:?}|{}|{};", a.id(), a.text_join("/"), a.data().count())).collect(),
        ROp::CollectData => store.data().map(|d| format!("{:?}={};", d.handle(), d.value())).collect(),
        ROp::FindData(k) => store.find_data("s", k.as_str(), DataOperator::Any).map(|d| format!("{:?}:{};", d.handle(), d.annotations().count())).collect(),
        ROp::Query(q) => match Query::try_from(q.as_str()) {
            Ok(query) => match store.query(query) {
                Ok(iter) => {
                    let mut out = String::new();
                    for row in iter {
                        for item in row.iter() {
                            out += &match item {
                                QueryResultItem::Annotation(a) => format!("A{};", a.handle().as_usize()),
                                QueryResultItem::AnnotationData(a) => format!("D{};", a.handle().as_usize()),
                                QueryResultItem::TextSelection(t) => format!("T{}-{};", t.begin(), t.end()),
                                _ => "other;".to_string(),
                            };
                        }
                        out.push('|');
                    }
                    out
                }
                Err(e) => format!("ERR {}", e),
            },
            Err(e) => format!("ERR {}", e),
        },
        ROp::RelatedText(i) => match store.annotations().nth(*i) {
            Some(a) => a.related_text(TextSelectionOperator::overlaps()).map(|t| format!("{}-{};", t.begin(), t.end())).collect(),
            None => "none".into(),
        },
        ROp::StoreJson => store.to_json_string(store.config()).unwrap_or_else(|e| format!("ERR {}", e)),
        ROp::ResourceJson(r) => match res(*r) {
            Some(r) => ToJson::to_json_string(r.as_ref(), r.as_ref().config()).unwrap_or_else(|e| format!("ERR {}", e)),
            None => "none".into(),
        },
        ROp::DatasetJson(i) => match store.datasets().nth(*i) {
            Some(d) => ToJson::to_json_string(d.as_ref(), d.as_ref().config()).unwrap_or_else(|e| format!("ERR {}", e)),
            None => "none".into(),
        },
        ROp::Segmentation(r) => match res(*r) {
            Some(r) => r.segmentation().map(|t| format!("{}-{};", t.begin(), t.end())).collect(),
            None => "none".into(),
        },
        ROp::ParAnnotations(n) => {
            let f = |a: ResultItem<Annotation>| format!("{:?}|{}|{};", a.id(), a.text_join("/"), a.data().count());
            let seq: Vec<String> = store.annotations().map(f).collect();
            let par: Vec<String> = pool(*n).install(|| store.annotations().parallel().map(f).collect());
            par_result(seq, par)
        }
        ROp::ParTextSelections(r, n) => match res(*r) {
            Some(r) => {
                let f = |t: ResultTextSelection| format!("{}-{}:{};", t.begin(), t.end(), t.annotations().count());
                let seq: Vec<String> = r.textselections().map(f).collect();
                let par: Vec<String> = pool(*n).install(|| r.textselections().parallel().map(f).collect());
                par_result(seq, par)
            }
            None => "none".into(),
        },
        ROp::ParData(n) => {
            let f = |d: ResultItem<AnnotationData>| format!("{:?}={}:{};", d.handle(), d.value(), d.annotations().count());
            let seq: Vec<String> = store.data().map(f).collect();
            let par: Vec<String> = pool(*n).install(|| store.data().parallel().map(f).collect());
            par_result(seq, par)
        }
        ROp::ParResourceJson(n) => {
            let f = |r: ResultItem<TextResource>| r.as_ref().to_json_string().unwrap_or_else(|e| format!("ERR {}", e));
            let seq: Vec<String> = store.resources().map(f).collect();
            let par: Vec<String> = pool(*n).install(|| store.resources().parallel().map(f).collect());
            par_result(seq, par)
        }
    }
}

fn pool(n: usize) -> rayon::ThreadPool {
    rayon::ThreadPoolBuilder::new().num_threads(n).build().expect("rayon pool")
}

/// the parallel adaptor must give the sequential iteration's items in the same order; the string is
/// what the thread "obtained" and is compared with the solo run like every other result
fn par_result(seq: Vec<String>, par: Vec<String>) -> String {
    if seq == par {
        par.concat()
    } else {
        format!("PARALLEL-DIFFERS seq={:?} par={:?}", seq, par)
    }
}

fn main() {
    let args: Vec<String> = std::env::args().collect();
    let verif_seed: u64 = args.get(1).and_then(|s| s.parse().ok()).unwrap_or(20260926);
    let index: u64 = args.get(2).and_then(|s| s.parse().ok()).unwrap_or(0);
    let heavy = args.iter().any(|x| x == "heavy");
    let s = gen(verif_seed, index, heavy);
    if args.get(3).map(|x| x == "describe").unwrap_or(false) {
        println!("texts={:?} annotations={:?} higher={:?} threads={:?}", s.texts, s.annotations, s.higher, s.threads);
        return;
    }
    if let Some(k) = args.get(3).and_then(|x| x.strip_prefix("time:")) {
        let store = build(&s);
        let op = match k {
            "find_text" => ROp::FindText(0, "a".into()),
            "regex" => ROp::FindRegex(0, "[a-c]+".into()),
            "split" => ROp::SplitText(0, " ".into()),
            "conv" => ROp::Conversions(0),
            "tsel" => ROp::TextSelections(0),
            "anns" => ROp::CollectAnnotations,
            "data" => ROp::CollectData,
            "finddata" => ROp::FindData("k0".into()),
            "query" => ROp::Query("SELECT ANNOTATION ?a WHERE DATA \"s\" \"k0\";".into()),
            "related" => ROp::RelatedText(0),
            "storejson" => ROp::StoreJson,
            "resjson" => ROp::ResourceJson(0),
            "seg" => ROp::Segmentation(0),
            _ => return,
        };
        println!("{}", run(&store, &op).len());
        return;
    }
    // reference: the same lists executed one after the other on one identical store (no call overlaps another)
    let seq_store = build(&s);
    let solo: Vec<Vec<String>> = s.threads.iter().map(|ops| ops.iter().map(|op| run(&seq_store, op)).collect()).collect();
    let solo_post = post_state(&seq_store, s.texts.len());

    let store = Arc::new(build(&s));
    let mut handles = Vec::new();
    for ops in s.threads.iter() {
        let store = store.clone();
        let ops = ops.clone();
        handles.push(std::thread::spawn(move || ops.iter().map(|op| run(&store, op)).collect::<Vec<String>>()));
    }
    let mut ok = true;
    for (t, h) in handles.into_iter().enumerate() {
        let got = h.join().expect("a reader thread panicked");
        for (i, g) in got.iter().enumerate() {
            if g != &solo[t][i] {
                ok = false;
                let cut = |x: &str| x.chars().take(200).collect::<String>();
                println!("C20DIVERGENCE|{}.result_differs|thread {} op {} {:?}: solo {:?} concurrent {:?}", opname(&s.threads[t][i]), t, i, s.threads[t][i], cut(&solo[t][i]), cut(g));
            }
        }
    }
    let post = post_state(&store, s.texts.len());
    if post != solo_post {
        ok = false;
        println!("C20DIVERGENCE|after_quiescence|the store answers differently after concurrent readers than after the same calls made sequentially");
    }
    if !ok {
        std::process::exit(1);
    }
    println!("ok");
}

/// what the store answers once all readers are done (cheap under Miri: no serialisation)
fn post_state(store: &AnnotationStore, nres: usize) -> String {
    let mut out = run(store, &ROp::CollectAnnotations);
    for r in 0..nres {
        out += &run(store, &ROp::Conversions(r));
        out += &run(store, &ROp::FindText(r, "a".to_string()));
    }
    out
}

fn opname(op: &ROp) -> &'static str {
    match op {
        ROp::FindText(..) => "find_text",
        ROp::FindRegex(..) => "find_text_regex",
        ROp::SplitText(..) => "split_text",
        ROp::Conversions(..) => "conversions",
        ROp::TextSelections(..) => "textselections",
        ROp::CollectAnnotations => "collect_annotations",
        ROp::CollectData => "collect_data",
        ROp::FindData(..) => "find_data",
        ROp::Query(..) => "query",
        ROp::RelatedText(..) => "related_text",
        ROp::StoreJson => "store_json",
        ROp::ResourceJson(..) => "resource_json",
        ROp::DatasetJson(..) => "dataset_json",
        ROp::Segmentation(..) => "segmentation",
        ROp::ParAnnotations(..) => "parallel_annotations",
        ROp::ParTextSelections(..) => "parallel_textselections",
        ROp::ParData(..) => "parallel_data",
        ROp::ParResourceJson(..) => "parallel_resource_json",
    }
}
